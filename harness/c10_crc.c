/* C10 (iii): liberasurecode_crc32_alt == independent bitwise model of the historical
 * sign-extending CRC-32.  MODE 1: one step from an arbitrary 32-bit state (size 1, symbolic
 * seed) - the inductive step for buffers of any length.  MODE 2: every buffer of <= NB bytes. */
#include "vh.h"
#ifndef MODE
#define MODE 1
#endif
#ifndef NB
#define NB 4
#endif
int liberasurecode_crc32_alt(int crc, const void *buf, size_t size);

static uint32_t tab_entry(uint32_t idx)
{
    uint32_t t = idx;
    for (int i = 0; i < 8; i++) t = (t >> 1) ^ (0xEDB88320u & (0u - (t & 1u)));
    return t;
}
/* historical variant: the running value is a signed int and the shift sign-extends */
static uint32_t legacy_step(uint32_t c, uint8_t b)
{
    uint32_t sh = (c >> 8) | ((c & 0x80000000u) ? 0xFF000000u : 0u);
    return tab_entry((c ^ b) & 0xFFu) ^ sh;
}
static uint32_t legacy_crc(uint32_t seed, const uint8_t *p, size_t n)
{
    uint32_t c = seed ^ 0xFFFFFFFFu;
    for (size_t i = 0; i < n; i++) c = legacy_step(c, p[i]);
    return c ^ 0xFFFFFFFFu;
}

int main(void)
{
#if MODE == 1
    uint8_t *b = malloc(1);
    ASSUME(b);
    b[0] = vin_u8();
    uint32_t seed = vin_u32();
    uint32_t got = (uint32_t)liberasurecode_crc32_alt((int)seed, b, 1);
    CHECK(got == legacy_crc(seed, b, 1), "crc32_alt step differs from the bitwise sign-extending model");
#else
    size_t n = (size_t)vin_range(0, NB);
    uint8_t *b = malloc(NB);
    ASSUME(b);
    vin_bytes(b, NB);
    uint32_t got = (uint32_t)liberasurecode_crc32_alt(0, b, n);
    CHECK(got == legacy_crc(0, b, n), "crc32_alt differs from the bitwise sign-extending model");
#endif
    WITNESS();
    return 0;
}
