/* C09: header acceptance == reference predicate, for every 80-byte header and every pair of
 * checksum values (CRCs uninterpreted, DESIGN D4).
 * MODE 1: is_invalid_fragment_header   MODE 2: liberasurecode_get_fragment_metadata
 * MODE 3: liberasurecode_decode        MODE 4: liberasurecode_reconstruct_fragment
 * SUB (modes 3/4): 0 = headers outside the host-order accept set -> -EBADHEADER;
 *                  1 = accepted header with well-formed fields -> call goes through. */
#include "vh.h"
#include "env_crc_uf.h"
#include "ref_pred.h"
#include "erasurecode.h"
#include "erasurecode_backend.h"
#include "erasurecode_helpers.h"
#include "erasurecode_helpers_ext.h"
#include "erasurecode_version.h"

#ifndef MODE
#define MODE 1
#endif
#ifndef SUB
#define SUB 0
#endif
#define PAY 2

struct frag { fragment_header_t h; uint8_t pay[PAY]; } __attribute__((packed));

int main(void)
{
    struct frag *f = malloc(sizeof *f);            /* exact size: any over-read is a bounds failure */
    uint8_t saved[sizeof *f];
    ASSUME(f != NULL);
    vin_bytes(f, sizeof *f);
    for (unsigned i = 0; i < sizeof *f; i++) saved[i] = ((uint8_t *)f)[i];
    uint32_t v_std = vin_u32(), v_alt = vin_u32();
    uf_define(0, &f->h.meta, sizeof(fragment_metadata_t), v_std);
    uf_define(1, &f->h.meta, sizeof(fragment_metadata_t), v_alt);
    const uint8_t *raw = saved;
    int acc = r_accept(raw, v_std, v_alt);
    int acc_host = r_accept_host(raw, v_std, v_alt);
    CHECK(LIBERASURECODE_VERSION == R_VER_RUNNING, "reference version constant out of date");
    CHECK(sizeof(fragment_header_t) == 80 && sizeof(fragment_metadata_t) == 59, "header layout");

#if MODE == 1
    int inv = is_invalid_fragment_header(&f->h);
    CHECK(inv == (acc ? 0 : 1), "is_invalid_fragment_header differs from the reference acceptance predicate");
    CHECK(uf_std_n == 1 && uf_alt_n == 1 && !uf_overflow, "metadata checksum computed over something other than the 59 metadata bytes");
#elif MODE == 2
    fragment_metadata_t md;
    int rc = liberasurecode_get_fragment_metadata((char *)f, &md);
    CHECK((rc == 0) == (acc != 0), "get_fragment_metadata acceptance differs from the reference predicate");
    CHECK(rc == 0 || rc == -EBADHEADER, "rejected header must give -EBADHEADER");
#else
    struct ec_args args;
    memset(&args, 0, sizeof args);
    args.k = 1; args.m = 1; args.hd = 1; args.ct = CHKSUM_NONE;
    int desc = liberasurecode_instance_create(EC_BACKEND_NULL, &args);   /* cheapest real back end: its ops do nothing */
    ASSUME(desc > 0);
    char *frags[1] = { (char *)f };
#if SUB == 0
    ASSUME(!acc_host);
#else
    ASSUME(acc_host);
    /* the remaining fields are those of a fragment 0 of a (1,1) stripe of <= PAY bytes */
    ASSUME(r_le32(raw + O_IDX) == 0 && r_le32(raw + O_SIZE) == PAY && r_le32(raw + O_BMSIZE) == 0);
    ASSUME(r_le64(raw + O_ORIG) <= PAY);
#endif
#if MODE == 3
    char *out = NULL; uint64_t outlen = 77;
    int rc = liberasurecode_decode(desc, frags, 1, sizeof *f, 0, &out, &outlen);
#if SUB == 0
    CHECK(rc == -EBADHEADER, "decode must reject an unacceptable / non-host-order header with -EBADHEADER");
#else
    CHECK(rc == 0, "decode must accept a host-order header that satisfies the predicate");
    CHECK(outlen == r_le64(raw + O_ORIG), "decoded length");
    for (unsigned i = 0; i < PAY; i++)
        if (i < outlen) CHECK((uint8_t)out[i] == saved[HDR_LEN + i], "decoded bytes");
    free(out);
#endif
#else
    char *outf = malloc(sizeof *f);
    ASSUME(outf != NULL);
    int rc = liberasurecode_reconstruct_fragment(desc, frags, 1, sizeof *f, 1, outf);
#if SUB == 0
    CHECK(rc == -EBADHEADER, "reconstruct must reject an unacceptable / non-host-order header with -EBADHEADER");
#else
    CHECK(rc == 0, "reconstruct must accept a host-order header that satisfies the predicate");
    CHECK(r_le32((uint8_t *)outf + O_IDX) == 1 && r_le32((uint8_t *)outf + O_MAGIC) == R_MAGIC, "reconstructed header");
#endif
    free(outf);
#endif
#endif
    for (unsigned i = 0; i < sizeof *f; i++)
        CHECK(((uint8_t *)f)[i] == saved[i], "validation modified the fragment");
    WITNESS();
    return 0;
}
