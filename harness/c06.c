/* C06: liberasurecode_fragments_needed through the public API for a symbolic pair of disjoint
 * index sets R (to rebuild, non-empty) and X (to exclude).
 *  -DLO,-DHI: LO <= |R|+|X| <= HI.  Within tolerance (HI <= tol) the call must succeed with a
 *  usable list; -DBEYOND: beyond tolerance an error or a still-correct list is accepted.
 * Answer checks: -1 terminated inside the k+m+1 slots, in range, distinct, disjoint from R and X,
 * exactly k entries for Reed-Solomon, and sufficient: every requested row lies in the GF(2) span
 * of the returned rows (flat-XOR, bit-vector elimination over the frozen equations); for the MDS
 * codes any k distinct rows are sufficient (C04/C19). */
#include "vh.h"
#include "inst.h"
#include "xor_eq.h"
#include "erasurecode_backend.h"
#ifdef L1XOR
#include "xor_code.h"
#endif
#ifndef LO
#define LO 1
#endif
#ifndef HI
#define HI 1
#endif
static int pop(uint32_t x) { int c = 0; for (int i = 0; i < 32; i++) c += (x >> i) & 1u; return c; }

int main(void)
{
#ifdef L1XOR
    /* flat-XOR planner at the builtin library's interface (the public wrapper and the adapter only
     * forward the three lists; their return-code handling is checked by the API-level obligations) */
    xor_code_t *code = init_xor_hd_code(K, M, HD);
    ASSUME(code != NULL);
#else
    int desc = mk_instance();
    ASSUME(desc > 0);
#endif
    uint32_t R = vin_u32(), X = vin_u32();
    ASSUME((N >= 32 || ((R >> (N & 31)) == 0 && (X >> (N & 31)) == 0)) && (R & X) == 0 && R != 0);
    int tot = pop(R) + pop(X);
    ASSUME(tot >= LO && tot <= HI);
    int rl[N + 1], xl[N + 1], need[N + 2];
    int nr = 0, nx = 0;
#ifdef REVERSED
    for (int i = N - 1; i >= 0; i--) {
#else
    for (int i = 0; i < N; i++) {
#endif
        if ((R >> i) & 1u) rl[nr++] = i;
        if ((X >> i) & 1u) xl[nx++] = i;
    }
    /* pad after the terminator with other values so a missing terminator test is not masked */
    for (int i = 0; i <= N; i++) { if (i >= nr) rl[i] = -1; if (i >= nx) xl[i] = -1; }
    for (int i = 0; i < N + 2; i++) need[i] = 77;
#ifdef L1XOR
    int rc = code->fragments_needed(code, rl, xl, need);
#else
    int rc = liberasurecode_fragments_needed(desc, rl, xl, need);
#endif
#ifdef BEYOND
    CHECK(rc <= 0, "fragments_needed returns 0 or a negative error");
#else
    CHECK(rc == 0, "fragments_needed within tolerance must succeed");
#endif
    if (rc == 0) {
        uint32_t NB = 0;
        int cnt = 0, term = 0, ok_range = 1, ok_distinct = 1;
        for (int i = 0; i < N + 1; i++) {
            if (term) continue;
            int v = need[i];
            if (v == -1) { term = 1; continue; }
            if (v < 0 || v >= N) { ok_range = 0; continue; }
            if ((NB >> (v & 31)) & 1u) ok_distinct = 0;
            NB |= 1u << (v & 31);
            cnt++;
        }
        CHECK(term, "answer is not -1 terminated within k+m+1 entries");
        CHECK(ok_range, "answer contains an index outside 0..k+m-1");
        CHECK(ok_distinct, "answer contains a duplicate index");
        CHECK((NB & R) == 0, "answer contains a fragment that is to be reconstructed");
        CHECK((NB & X) == 0, "answer contains an excluded fragment");
#if BE == 3
        /* GF(2) span over the frozen equations: row(i<k)=e_i, row(k+j)=eq[j] */
        const struct xor_eq *eq = xor_eq_find(K, M, HD);
        ASSUME(eq != NULL);
        uint32_t basis[K];
        for (int c = 0; c < K; c++) basis[c] = 0;
        for (int i = 0; i < N; i++) {
            uint32_t v = ((NB >> i) & 1u) ? (i < K ? (1u << i) : eq->eq[i - K]) : 0;
            for (int c = K - 1; c >= 0; c--) {
                if (!((v >> c) & 1u)) continue;
                if (basis[c] == 0) { basis[c] = v; v = 0; } else v ^= basis[c];
            }
        }
        int suff = 1;
        for (int i = 0; i < N; i++) {
            if (!((R >> i) & 1u)) continue;
            uint32_t v = i < K ? (1u << i) : eq->eq[i - K];
            for (int c = K - 1; c >= 0; c--) if (((v >> c) & 1u) && basis[c]) v ^= basis[c];
            suff &= (v == 0);
        }
        CHECK(suff, "requested fragments cannot be reconstructed from the returned fragments alone");
#else
        CHECK(cnt == K, "Reed-Solomon answer must name exactly k fragments");
#endif
    }
#ifdef L1XOR
    free(code);
#else
    CHECK(liberasurecode_instance_destroy(desc) == 0, "destroy");
#endif
    WITNESS();
    return 0;
}
