/* C04 (b): real make_systematic_matrix(K,M) (GF arithmetic contract-replaced, D1) equals the
 * closed form L_j(r)/L_j(k) entry by entry; top k x k identity; first parity row all ones. */
#include "vh.h"
#include "inst.h"
#include "ref_format.h"
#include "rs_galois.h"
#include "liberasurecode_rs_vand.h"
int main(void)
{
    struct ref_cfg cfg = { 6, 0x010000, K, M, M, 2, 1, 0 };
    init_liberasurecode_rs_vand(K, M);
    int *g = make_systematic_matrix(K, M);
    CHECK(g != NULL, "matrix");
    ASSUME(g != NULL);
    for (int r = 0; r < K; r++) for (int j = 0; j < K; j++) CHECK(g[r * K + j] == (r == j), "data rows are the identity");
    for (int j = 0; j < K; j++) CHECK(g[K * K + j] == 1, "first parity row is all ones (XOR of the data)");
    for (int r = K; r < N; r++) for (int j = 0; j < K; j++)
        CHECK((uint32_t)g[r * K + j] == ref_coeff(&cfg, r, j), "generator entry differs from the closed form L_j(r)/L_j(k)");
    free_systematic_matrix(g);
    deinit_liberasurecode_rs_vand();
    WITNESS();
    return 0;
}
