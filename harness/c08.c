/* C08: size queries for a fully symbolic data length on a real instance.
 *   aligned(len)  == smallest multiple of k*w >= len        (len in [0, LMAXQ])
 *   minimum       == aligned(1)
 *   fragment_size == aligned(len)/k   (the payload length encode produces: C07 ties
 *                    fragment_len-80 to the same expression for the enumerated lengths, and the
 *                    allocation path of encode - get_aligned_data_size + division by k - is
 *                    executed here for the symbolic length)
 *   unknown descriptor -> negative */
#include "vh.h"
#include "inst.h"
#include "erasurecode_backend.h"
#include "erasurecode_helpers.h"
#include "erasurecode_helpers_ext.h"
#ifndef LMAXQ
#define LMAXQ (1 << 20)
#endif
#define UNIT (K * BE_WBYTES)

int main(void)
{
    int desc = mk_instance();
    ASSUME(desc > 0);
    uint64_t len = vin();
    ASSUME(len <= (uint64_t)LMAXQ);
    int al = liberasurecode_get_aligned_data_size(desc, len);
    CHECK(al >= 0 && (uint64_t)al >= len && al % UNIT == 0 && (uint64_t)al < len + UNIT, "aligned size is the smallest multiple of k*w >= len");
    CHECK(liberasurecode_get_minimum_encode_size(desc) == UNIT, "minimum encode size == aligned(1) == k*w");
    int fs = liberasurecode_get_fragment_size(desc, (int)len);
    CHECK(fs == al / K, "fragment size == aligned size / k");
    /* what encode allocates for this length (prepare_fragments_for_encode uses this helper) */
    ec_backend_t inst = liberasurecode_backend_instance_get_by_desc(desc);
    CHECK(inst != NULL, "instance lookup");
    CHECK(get_aligned_data_size(inst, (int)len) == al, "encode's internal aligned size agrees with the public query");
    /* unknown descriptors */
    int bad = vin_int();
    ASSUME(bad != desc);
    CHECK(liberasurecode_get_aligned_data_size(bad, len) < 0, "aligned size query on an unknown descriptor must fail");
    CHECK(liberasurecode_get_minimum_encode_size(bad) < 0, "minimum size query on an unknown descriptor must fail");
    CHECK(liberasurecode_get_fragment_size(bad, (int)len) < 0, "fragment size query on an unknown descriptor must fail");
    CHECK(liberasurecode_instance_destroy(desc) == 0, "destroy");
    WITNESS();
    return 0;
}
