/* C05 kernels and table facts.
 * MODE 1: minimum distance >= hd as a solver query: no non-zero data vector d (k bits) gives a
 *         codeword (d, parity(d)) of weight < hd, parity computed from the REAL parity-side table.
 * MODE 2: xor_bufs_and_store for a symbolic length n <= NMAX: dst[0..n) ^= src[0..n), nothing else written.
 * MODE 3: every (k,m,hd) in [-1,33]^2 x [0,7] outside the supported list makes init_xor_hd_code return NULL. */
#include "vh.h"
#include "xor_code.h"
#ifndef MODE
#define MODE 1
#endif
#ifndef NMAX
#define NMAX 48
#endif

static int supported(int k, int m, int hd)
{
    if (hd == 3) return (m == 6 && k >= 6 && k <= 15) || (m == 5 && k >= 5 && k <= 10) || (m == 3 && k == 3);
    if (hd == 4) return (m == 6 && k >= 6 && k <= 20) || (m == 5 && k >= 5 && k <= 10);
    return 0;
}
static int pop(uint32_t x) { int c = 0; for (int i = 0; i < 32; i++) c += (x >> i) & 1u; return c; }

int main(void)
{
#if MODE == 1
    xor_code_t *code = init_xor_hd_code(K, M, HD);
    ASSUME(code != NULL);
    uint32_t d = vin_u32();
    ASSUME(d != 0 && (K == 32 || (d >> K) == 0));
    int w = pop(d);
    for (int j = 0; j < M; j++) w += pop(d & code->parity_bms[j]) & 1;
    CHECK(w >= HD, "a non-zero codeword of weight < hd exists: minimum distance below hd");
    /* same with the data-side table */
    int w2 = pop(d);
    for (int j = 0; j < M; j++) {
        int p = 0;
        for (int i = 0; i < K; i++) if ((d >> i) & 1u) p ^= (code->data_bms[i] >> j) & 1u;
        w2 += p;
    }
    CHECK(w2 == w, "data-side and parity-side tables disagree");
    free(code);
#elif MODE == 2
    static uint8_t src[NMAX + 16] __attribute__((aligned(16))), dst[NMAX + 16] __attribute__((aligned(16))), old[NMAX + 16];
    vin_bytes(src, NMAX + 16); vin_bytes(dst, NMAX + 16);
    for (int i = 0; i < NMAX + 16; i++) old[i] = dst[i];
    int n = vin_range(0, NMAX);
    xor_bufs_and_store((char *)src, (char *)dst, n);
    int ok = 1, untouched = 1;
    for (int i = 0; i < NMAX + 16; i++) {
        if (i < n) ok &= (dst[i] == (uint8_t)(old[i] ^ src[i]));
        else untouched &= (dst[i] == old[i]);
    }
    CHECK(ok, "xor_bufs_and_store result is not the bytewise XOR on [0,n)");
    CHECK(untouched, "xor_bufs_and_store wrote beyond n bytes");
#else
    int k = vin_range(-1, 33), m = vin_range(-1, 33), hd = vin_range(0, 7);
    ASSUME(!supported(k, m, hd));
    xor_code_t *code = init_xor_hd_code(k, m, hd);
    CHECK(code == NULL, "unsupported flat-XOR shape must be refused");
#endif
    WITNESS();
    return 0;
}
