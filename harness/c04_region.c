/* C04 (e): region kernels with a symbolic block size.
 * region_xor: to[0..n) ^= from[0..n); region_multiply (xor=0/1): 16-bit host-order words times
 * a symbolic coefficient; nothing written beyond n bytes.  Even n only for region_multiply (the
 * front end always passes a multiple of the word size; the odd-byte tail reads a signed char as
 * a table index and is unreachable through the API). */
#include "vh.h"
#include "ref_format.h"
#include "rs_galois.h"
#ifndef NMAX
#define NMAX 10
#endif
void region_xor(char *from_buf, char *to_buf, int blocksize);
void region_multiply(char *from_buf, char *to_buf, int mult, int xor, int blocksize);
int main(void)
{
    static uint8_t from[NMAX + 4], to[NMAX + 4], old[NMAX + 4];
    rs_galois_init_tables();
    vin_bytes(from, NMAX + 4); vin_bytes(to, NMAX + 4);
    for (int i = 0; i < NMAX + 4; i++) old[i] = to[i];
    int n = vin_range(0, NMAX);
#if MODE == 1
    region_xor((char *)from, (char *)to, n);
    int ok = 1, clean = 1;
    for (int i = 0; i < NMAX + 4; i++) { if (i < n) ok &= (to[i] == (uint8_t)(old[i] ^ from[i])); else clean &= (to[i] == old[i]); }
    CHECK(ok, "region_xor result"); CHECK(clean, "region_xor wrote beyond the block");
#else
    int mult = vin_range(0, 65535), x = vin_bool();
    ASSUME(n % 2 == 0);
    region_multiply((char *)from, (char *)to, mult, x, n);
    int ok = 1, clean = 1;
    for (int i = 0; i + 1 < NMAX + 4; i += 2) {
        if (i < n) {
            uint32_t w = from[i] | ((uint32_t)from[i + 1] << 8), p = m16_mul(w, (uint32_t)mult);
            uint32_t o = old[i] | ((uint32_t)old[i + 1] << 8), e = x ? (o ^ p) : p;
            ok &= (to[i] == (uint8_t)e && to[i + 1] == (uint8_t)(e >> 8));
        } else clean &= (to[i] == old[i] && to[i + 1] == old[i + 1]);
    }
    CHECK(ok, "region_multiply result differs from word-wise field multiplication"); CHECK(clean, "region_multiply wrote beyond the block");
#endif
    rs_galois_deinit_tables();
    WITNESS();
    return 0;
}
