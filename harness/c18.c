/* C18 (context-bounded): two "threads" A and B, one public operation each.  A's operation runs
 * until the OCC-th time it reaches the instrumented yield point YIELD (both enumerated by the
 * driver: a symbolic pre-emption point inlines B's whole operation at every occurrence of every
 * hook and needed > 14 GB); there B's complete operation runs (one pre-emption), then A resumes.  A B that needs the registry lock while A
 * holds it is blocked (that schedule is infeasible).  All schedules with one context switch into
 * B at an instrumented point are covered by one query per scenario; the "no pre-emption" and
 * "B first" orders are included (yield id 0 = B runs before A, id 99 = after).
 * Checked: no memory-safety failure (use of a freed instance / of missing GF tables shows up as
 * a dereference or table assertion failure), unique positive descriptors, every result equals the
 * sequential result.
 * -DSCEN=1 encode(shared) || encode(shared)            2 encode(shared) || destroy(own, listed first)
 *        3 create RS || create RS (first ever)        4 create XOR || create XOR
 *        5 encode(shared RS) || create+destroy own RS  6 destroy own RS || encode(shared RS)
 *        7 destroy own || destroy own (two other instances; a third, shared one must stay registered) */
#include "vh.h"
#include "erasurecode.h"
#include "erasurecode_backend.h"
#ifndef SCEN
#define SCEN 1
#endif
#ifndef YIELD
#define YIELD 0
#endif
#ifndef OCC
#define OCC 1
#endif
static int yield_at, fired, in_b;
static int shared, own_a, own_b, res_b_desc;
static uint8_t src_a[4], src_b[4];
static int rc_b, b_par_ok;

static int mk(int be, int k, int m, int hd)
{
    struct ec_args a;
    memset(&a, 0, sizeof a);
    a.k = k; a.m = m; a.hd = hd; a.ct = CHKSUM_NONE;
    return liberasurecode_instance_create((ec_backend_id_t)be, &a);
}
/* encode 4 bytes with an RS(2,1) instance: parity must be the XOR of the two data words */
static int enc_check(int desc, const uint8_t *s)
{
    char **ed = NULL, **ep = NULL; uint64_t fl = 0;
    int rc = liberasurecode_encode(desc, (char *)s, 4, &ed, &ep, &fl);
    if (rc != 0) return rc;
    int ok = (fl == 82) && (uint8_t)ep[0][80] == (uint8_t)(s[0] ^ s[2]) && (uint8_t)ep[0][81] == (uint8_t)(s[1] ^ s[3])
             && (uint8_t)ed[0][80] == s[0] && (uint8_t)ed[1][81] == s[3];
    liberasurecode_encode_cleanup(desc, ed, ep);
    return ok ? 0 : 1000;
}
static void op_b(void)
{
#if SCEN == 1
    rc_b = enc_check(shared, src_b);
#elif SCEN == 2 || SCEN == 6
#if SCEN == 2
    rc_b = liberasurecode_instance_destroy(own_b);
#else
    rc_b = enc_check(shared, src_b);
#endif
#elif SCEN == 3
    res_b_desc = mk(EC_BACKEND_LIBERASURECODE_RS_VAND, 2, 1, 1);
    rc_b = res_b_desc > 0 ? 0 : res_b_desc;
#elif SCEN == 4
    res_b_desc = mk(EC_BACKEND_FLAT_XOR_HD, 3, 3, 3);
    rc_b = res_b_desc > 0 ? 0 : res_b_desc;
#elif SCEN == 7
    rc_b = liberasurecode_instance_destroy(own_b);
#elif SCEN == 5
    res_b_desc = mk(EC_BACKEND_LIBERASURECODE_RS_VAND, 1, 1, 1);
    rc_b = res_b_desc > 0 ? liberasurecode_instance_destroy(res_b_desc) : res_b_desc;
#endif
}
static int hits;
static void hook(int id)
{
    /* lock discipline (race monitor): yield points 7 and 8 sit immediately before the registry list is modified */
    if (id == 7 || id == 8) CHECK(env_lock_writer == 1, "registry list modified without holding the registry lock in write mode");
    if (in_b || fired || id != yield_at) return;
    if (++hits != OCC) return;          /* pre-empt at the OCC-th time this point is reached */
    fired = 1; in_b = 1;
    op_b();
    in_b = 0;
}

int main(void)
{
    vin_bytes(src_a, 4); vin_bytes(src_b, 4);
    yield_at = YIELD;                   /* pre-emption point, enumerated by the driver */
    env_lock_blocking = 1;
    /* set-up (sequential) */
#if SCEN == 1 || SCEN == 5 || SCEN == 6
    shared = mk(EC_BACKEND_LIBERASURECODE_RS_VAND, 2, 1, 1);
    ASSUME(shared > 0);
#endif
#if SCEN == 2
    shared = mk(EC_BACKEND_LIBERASURECODE_RS_VAND, 2, 1, 1);
    own_b = mk(EC_BACKEND_FLAT_XOR_HD, 3, 3, 3);       /* registered later: sits before `shared` in the list */
    ASSUME(shared > 0 && own_b > 0);
#endif
#if SCEN == 6
    own_a = mk(EC_BACKEND_LIBERASURECODE_RS_VAND, 1, 1, 1);
    ASSUME(own_a > 0);
#endif
#if SCEN == 7
    shared = mk(EC_BACKEND_FLAT_XOR_HD, 3, 3, 3);
    own_a = mk(EC_BACKEND_FLAT_XOR_HD, 3, 3, 3);
    own_b = mk(EC_BACKEND_FLAT_XOR_HD, 3, 3, 3);      /* list order: own_b, own_a, shared (neighbours) */
    ASSUME(shared > 0 && own_a > 0 && own_b > 0);
#endif
    env_yield_hook = hook;
    if (yield_at == 0) { fired = 1; in_b = 1; op_b(); in_b = 0; }
    /* A's operation */
    int rc_a, res_a_desc = 0;
#if SCEN == 1 || SCEN == 2 || SCEN == 5
    rc_a = enc_check(shared, src_a);
#elif SCEN == 3
    res_a_desc = mk(EC_BACKEND_LIBERASURECODE_RS_VAND, 2, 1, 1);
    rc_a = res_a_desc > 0 ? enc_check(res_a_desc, src_a) : res_a_desc;
#elif SCEN == 4
    res_a_desc = mk(EC_BACKEND_FLAT_XOR_HD, 3, 3, 3);
    rc_a = res_a_desc > 0 ? 0 : res_a_desc;
#elif SCEN == 6 || SCEN == 7
    rc_a = liberasurecode_instance_destroy(own_a);
#endif
    if (!fired) { fired = 1; in_b = 1; op_b(); in_b = 0; }
    env_yield_hook = NULL;
    CHECK(rc_a == 0, "thread A's operation does not give its sequential result");
    CHECK(rc_b == 0, "thread B's operation does not give its sequential result");
#if SCEN == 3 || SCEN == 4
    CHECK(res_a_desc > 0 && res_b_desc > 0 && res_a_desc != res_b_desc, "concurrent creates must return distinct positive descriptors");
    CHECK(liberasurecode_backend_instance_get_by_desc(res_a_desc) != NULL && liberasurecode_backend_instance_get_by_desc(res_b_desc) != NULL, "both created instances are registered");
#if SCEN == 3
    CHECK(enc_check(res_a_desc, src_b) == 0 && enc_check(res_b_desc, src_a) == 0, "instances created concurrently are fully initialised");
#endif
    liberasurecode_instance_destroy(res_a_desc); liberasurecode_instance_destroy(res_b_desc);
#endif
#if SCEN == 7
    CHECK(liberasurecode_backend_instance_get_by_desc(own_a) == NULL && liberasurecode_backend_instance_get_by_desc(own_b) == NULL, "destroyed instances still registered");
    CHECK(liberasurecode_backend_instance_get_by_desc(shared) != NULL, "concurrent destroys of other instances unregistered a third instance");
    CHECK(liberasurecode_get_minimum_encode_size(shared) == 12, "surviving instance works");
    CHECK(liberasurecode_instance_destroy(shared) == 0, "destroy shared");
#endif
#if SCEN == 1 || SCEN == 2 || SCEN == 5 || SCEN == 6
    CHECK(enc_check(shared, src_b) == 0, "shared instance still works afterwards");
    CHECK(liberasurecode_instance_destroy(shared) == 0, "destroy shared");
#endif
    WITNESS();
    return 0;
}
