/* C04 K1: the log/antilog algorithm of rs_galois.c, instantiated at w=8 (PRIM_POLY 0x11d,
 * FIELD_SIZE 256 - the only two lines rewritten, see vlib/core.py gen_galois), equals carry-less
 * multiplication modulo the polynomial for EVERY operand pair; every table index is in bounds
 * (CBMC bounds checks with symbolic index); init/deinit reference counting over a symbolic
 * sequence of calls.
 * MODE 1 arithmetic  MODE 2 reference counter  MODE 3 (thorough) production-width init loop safety */
#include "vh.h"
#include "rs_galois.h"
#ifndef MODE
#define MODE 1
#endif
#ifndef POLY
#define POLY 0x11du
#define WBITS 8
#endif
extern int *log_table, *ilog_table, *ilog_table_begin;

static unsigned clmul(unsigned a, unsigned b)
{
    unsigned r = 0;
    for (int i = 0; i < WBITS; i++) {
        r ^= a & (0u - (b & 1u));
        b >>= 1;
        a <<= 1;
        a ^= POLY & (0u - ((a >> WBITS) & 1u));
    }
    return r;
}

int main(void)
{
#if MODE == 1
    rs_galois_init_tables();
    int x = vin_range(0, (1 << WBITS) - 1), y = vin_range(0, (1 << WBITS) - 1);
    int p = rs_galois_mult(x, y);
    CHECK(p >= 0 && p < (1 << WBITS) && (unsigned)p == clmul((unsigned)x, (unsigned)y), "rs_galois_mult differs from carry-less multiplication modulo the polynomial");
    int q = rs_galois_div(x, y);
    if (x == 0) CHECK(q == 0, "0 / y == 0");
    else if (y == 0) CHECK(q == -1, "x / 0 == -1");
    else CHECK(q > 0 && q < (1 << WBITS) && clmul((unsigned)q, (unsigned)y) == (unsigned)x, "rs_galois_div is not the inverse of multiplication");
    int iv = rs_galois_inverse(y);
    if (y != 0) CHECK(iv > 0 && clmul((unsigned)iv, (unsigned)y) == 1u, "rs_galois_inverse(y) * y != 1");
    else CHECK(iv == -1, "inverse(0) == -1");
    rs_galois_deinit_tables();
    CHECK(log_table == NULL && ilog_table_begin == NULL, "tables released by the last deinit");
#elif MODE == 2
    int c = 0;
    for (int s = 0; s < 6; s++) {
        if (vin_bool()) { rs_galois_init_tables(); c++; }
        else { rs_galois_deinit_tables(); c = c > 0 ? c - 1 : 0; }
        CHECK((log_table != NULL) == (c > 0) && (ilog_table_begin != NULL) == (c > 0), "GF tables present exactly while at least one user holds them");
        if (c > 0) CHECK(ilog_table == ilog_table_begin + ((1 << WBITS) - 1) && log_table[1] == 0 && ilog_table[0] == 1, "tables initialised");
    }
    while (c-- > 0) rs_galois_deinit_tables();
    CHECK(log_table == NULL && ilog_table_begin == NULL, "tables released");
#else
    rs_galois_init_tables();
    CHECK(log_table != NULL, "init");
    rs_galois_deinit_tables();
#endif
    WITNESS();
    return 0;
}
