/* L2: public API decode / reconstruct on fragments produced by the independent serializer
 * (DESIGN D3) for symbolic data.  Serves C01, C02, C03, C15, C16, C20.
 *  -DLEN=n           input length (enumerated), content symbolic
 *  -DORDER=i,j,...   fragment indexes supplied, in this order (duplicates allowed)
 *  -DMODE=1 decode (-DFORCE=0/1)   -DMODE=2 reconstruct (-DDEST=d)
 *  -DEXPECT=1 must succeed with the exact bytes; 0 error-or-exact; -1 must fail
 *  -DDMG=mask        (C20) positions of ORDER whose payload gets a symbolic non-zero damage
 *  -DHDRDMG=pos,-DHDRFIELD=f  (C20) re-sealed header field edit at position pos
 *  -DUFCRC           CRCs uninterpreted (needed for DMG / ct=CRC32 validation paths)
 *  -DUNALIGN=mask     positions of ORDER handed over at offset 1 of their object (not 16-byte aligned)
 * Fragment buffers are exact-size heap objects (one spare leading byte for the unaligned ones). */
#include "vh.h"
#include "inst.h"
#include "ref_format.h"
#include "erasurecode_backend.h"
#include "erasurecode_helpers.h"
#ifdef UFCRC
#include "env_crc_uf.h"
#endif
#ifndef LEN
#define LEN 3
#endif
#ifndef MODE
#define MODE 1
#endif
#ifndef FORCE
#define FORCE 0
#endif
#ifndef EXPECT
#define EXPECT 1
#endif
#ifndef DEST
#define DEST 0
#endif
#ifndef DMG
#define DMG 0
#endif
#ifndef UNALIGN
#define UNALIGN 0
#endif
#ifndef DMGPOS
#define DMGPOS 0
#endif
#define UNIT (K * BE_WBYTES)
#define SIZE (((LEN + UNIT - 1) / UNIT) * BE_WBYTES)
#define FLEN (80 + SIZE)
static const int order[] = { ORDER };
#define NF ((int)(sizeof order / sizeof order[0]))

int main(void)
{
    struct ref_cfg cfg = { BE, BE_VERSION, K, M, HD, BE_WBYTES, CT, 0 };
    int desc = mk_instance();
    ASSUME(desc > 0);
    static uint8_t src[LEN + 1];
    vin_bytes(src, LEN);
    char *frags[NF + 1];
    static uint8_t saved[NF + 1][FLEN];
    for (int i = 0; i < NF; i++) {
        /* CBMC's pointer-to-integer conversion puts the offset in the low bits, so a fresh object is
         * always "16-byte aligned"; the copy-to-aligned path is reached by handing the library a
         * pointer at offset 1 of a one-byte-larger object (positions selected by -DUNALIGN) */
        uint8_t *b = ((UNALIGN >> i) & 1) ? (uint8_t *)malloc(FLEN + 1) + 1 : (uint8_t *)malloc(FLEN);
        ASSUME(b != NULL);
#ifdef UFCRC
#ifdef UFCONST
        /* the outcome depends only on which checksums are equal, so distinct constants are a sound
         * abstraction of the CRC values and keep every validation verdict concrete for symex */
        cfg.uf = 1; cfg.uf_payload = 0x10000u + i; cfg.uf_meta = 0x20000u + i;
#else
        cfg.uf = 1; cfg.uf_payload = vin_u32(); cfg.uf_meta = vin_u32();
#endif
        uf_define(0, b, 59, cfg.uf_meta);
        uf_define(0, b + 80, SIZE, cfg.uf_payload);
#endif
        ref_fragment(&cfg, src, LEN, order[i], b, SIZE);
#if DMG
        if ((DMG >> i) & 1) {
            /* symbolic non-zero damage of one payload byte; the checksum no longer matches */
            /* position enumerated by the driver (-DDMGPOS), value symbolic */
            uint8_t x = vin_u8(); int pos = DMGPOS;
            ASSUME(x != 0 && SIZE > 0);
            b[80 + pos] ^= x;
#ifdef UFCRC
#ifdef UFCONST
            uint32_t bad = 0xBAD00u + i, bad2 = 0xBAD80u + i;
#else
            uint32_t bad = vin_u32(), bad2 = vin_u32();
            ASSUME(bad != cfg.uf_payload && bad2 != cfg.uf_payload);
#endif
            uf_std[uf_std_n - 1].v = bad;          /* CRC of the damaged payload differs (standard ...) */
            uf_define(1, b + 80, SIZE, bad2);      /* ... and historical) */
#endif
        }
#endif
#ifdef HDRDMG
        if (i == HDRDMG) {
            /* header field edit, re-sealed: the metadata CRC of the edited header is again the stored value */
#ifdef HDRVAL
            uint32_t v = (uint32_t)(HDRVAL);   /* value enumerated by the driver: keeps the validation verdict concrete for symex */
#else
            uint32_t v = vin_u32();
#endif
#if HDRFIELD == 0      /* idx outside 0..k+m-1 */
            ASSUME(v >= (uint32_t)N);
            b[0] = (uint8_t)v; b[1] = (uint8_t)(v >> 8); b[2] = (uint8_t)(v >> 16); b[3] = (uint8_t)(v >> 24);
#elif HDRFIELD == 1    /* foreign backend id */
            ASSUME((uint8_t)v != BE);
            b[54] = (uint8_t)v;
#else                  /* other backend version */
            ASSUME(v != BE_VERSION);
            b[55] = (uint8_t)v; b[56] = (uint8_t)(v >> 8); b[57] = (uint8_t)(v >> 16); b[58] = (uint8_t)(v >> 24);
#endif
        }
#endif
        for (int j = 0; j < FLEN; j++) saved[i][j] = b[j];
        frags[i] = (char *)b;
    }
#if MODE == 1
    char *out = NULL;
    uint64_t outlen = 0xdeadbeef;
    int rc = liberasurecode_decode(desc, frags, NF, FLEN, FORCE, &out, &outlen);
#if EXPECT == 1
    CHECK(rc == 0, "decode within tolerance must succeed");
#elif EXPECT == -1
    CHECK(rc < 0, "decode must fail");
#else
    CHECK(rc <= 0, "decode returns 0 or a negative error");
#endif
    if (rc == 0) {
        CHECK(outlen == LEN, "decoded length differs from the original length");
        int ok = 1;
        for (int i = 0; i < LEN; i++) ok &= ((uint8_t)out[i] == src[i]);
        CHECK(ok, "decode reported success with bytes that differ from the original data");
        CHECK(liberasurecode_decode_cleanup(desc, out) == 0, "decode_cleanup");
    }
#else
    uint8_t *outf = malloc(FLEN);
    ASSUME(outf != NULL);
    int rc = liberasurecode_reconstruct_fragment(desc, frags, NF, FLEN, DEST, (char *)outf);
#if EXPECT == 1
    CHECK(rc == 0, "reconstruct within tolerance must succeed");
#elif EXPECT == -1
    CHECK(rc < 0, "reconstruct must fail");
#else
    CHECK(rc <= 0, "reconstruct returns 0 or a negative error");
#endif
    if (rc == 0) {
        static uint8_t ref[FLEN];
#ifdef UFCRC
        cfg.uf = 1; cfg.uf_payload = 0; cfg.uf_meta = 0;
#endif
        /* payload from the reference encoder; header (incl. the payload CRC) from the reference serializer
         * applied to the payload bytes actually returned: "payload == reference payload" and "header ==
         * reference header for that payload" together are the byte-for-byte fragment equality, and the CRC
         * circuits on both sides then run over the same expression (a CRC over two structurally different
         * but equal GF expressions cost > 900 s for RS(2,2) with two erasures) */
        ref_payload(&cfg, src, LEN, DEST, ref + 80, SIZE);
        ref_header(&cfg, LEN, DEST, outf + 80, SIZE, ref);
        int hok = 1, pok = 1;
        for (int j = 0; j < 80; j++) {
#ifdef UFCRC
            if ((j >= 21 && j < 25) || (j >= 67 && j < 71)) continue;   /* checksum fields: real-CRC variants */
#endif
            hok &= (outf[j] == ref[j]);
        }
        for (int j = 80; j < FLEN; j++) pok &= (outf[j] == ref[j]);
        CHECK(hok, "reconstructed fragment header differs from the fragment encode produces");
        CHECK(pok, "reconstructed fragment payload differs from the fragment encode produces");
    }
    free(outf);
#endif
    for (int i = 0; i < NF; i++) {
        int same = 1;
        for (int j = 0; j < FLEN; j++) same &= ((uint8_t)frags[i][j] == saved[i][j]);
        CHECK(same, "the call modified an input fragment");
        free(frags[i] - ((UNALIGN >> i) & 1));
    }
    CHECK(liberasurecode_instance_destroy(desc) == 0, "destroy");
    WITNESS();
    return 0;
}
