/* C13 (second half): any instance that creation accepted survives a full cycle
 * (encode, decode of the data fragments, size queries, cleanup, destroy) without arithmetic or
 * memory faults.  Shape enumerated by the driver, data symbolic. */
#include "vh.h"
#include "inst.h"
#include "erasurecode_backend.h"
#ifndef LEN
#define LEN 3
#endif
int main(void)
{
    struct ec_args a;
    memset(&a, 0, sizeof a);
    a.k = K; a.m = M; a.hd = HD; a.ct = CT;
    int desc = liberasurecode_instance_create((ec_backend_id_t)BE, &a);
#ifdef EXPECT_REFUSED
    CHECK(desc < 0, "shape outside the supported region must be refused");
#else
    if (desc > 0) {
        static uint8_t src[LEN + 1];
        vin_bytes(src, LEN);
        char **ed = NULL, **ep = NULL; uint64_t fl = 0;
        int al = liberasurecode_get_aligned_data_size(desc, LEN);
        int fs = liberasurecode_get_fragment_size(desc, LEN);
        int mn = liberasurecode_get_minimum_encode_size(desc);
        CHECK(al >= LEN && fs >= 0 && mn >= 1, "size queries");
        int rc = liberasurecode_encode(desc, (char *)src, LEN, &ed, &ep, &fl);
        CHECK(rc == 0, "encode on an accepted instance");
        if (rc == 0) {
            char *out = NULL; uint64_t ol = 0;
            rc = liberasurecode_decode(desc, ed, K, fl, 0, &out, &ol);
            CHECK(rc == 0 && ol == LEN, "decode from the data fragments");
            if (rc == 0) { int ok = 1; for (int i = 0; i < LEN; i++) ok &= ((uint8_t)out[i] == src[i]); CHECK(ok, "round trip"); liberasurecode_decode_cleanup(desc, out); }
            liberasurecode_encode_cleanup(desc, ed, ep);
        }
        CHECK(liberasurecode_instance_destroy(desc) == 0, "destroy");
    }
#endif
    WITNESS();
    return 0;
}
