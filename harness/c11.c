/* C11: an opposite-endian fragment is read with the same meaning as its native twin.
 * f2 = arbitrary opposite-order header accepted by the C09 predicate (+ payload); f1 = its
 * native-order twin (every multi-byte field byte-swapped, single-byte fields and payload equal).
 * CRCs uninterpreted: the two headers have unrelated metadata CRCs (both "sealed" by assuming
 * acceptance), the payloads are equal so their CRCs are the same two values. */
#include "vh.h"
#include "env_crc_uf.h"
#include "ref_pred.h"
#include "erasurecode.h"
#include "erasurecode_backend.h"
#include "erasurecode_helpers.h"
#include "erasurecode_helpers_ext.h"
#ifndef PAY
#define PAY 4
#endif
struct frag { fragment_header_t h; uint8_t pay[PAY]; } __attribute__((packed));

static void swap4(uint8_t *d, const uint8_t *s) { d[0] = s[3]; d[1] = s[2]; d[2] = s[1]; d[3] = s[0]; }

int main(void)
{
    struct frag *f2 = malloc(sizeof *f2), *f1 = malloc(sizeof *f1);
    ASSUME(f1 && f2);
    vin_bytes(f2, sizeof *f2);
    uint8_t *b2 = (uint8_t *)f2, *b1 = (uint8_t *)f1;
    /* native twin */
    memcpy(b1, b2, sizeof *f2);
    swap4(b1 + O_IDX, b2 + O_IDX); swap4(b1 + O_SIZE, b2 + O_SIZE); swap4(b1 + O_BMSIZE, b2 + O_BMSIZE);
    for (int i = 0; i < 8; i++) b1[O_ORIG + i] = b2[O_ORIG + 7 - i];
    for (int i = 0; i < 8; i++) swap4(b1 + O_CHK + 4 * i, b2 + O_CHK + 4 * i);
    swap4(b1 + O_BEVER, b2 + O_BEVER); swap4(b1 + O_MAGIC, b2 + O_MAGIC); swap4(b1 + O_LIBVER, b2 + O_LIBVER);
    uint32_t v2s = vin_u32(), v2a = vin_u32(), v1s = vin_u32(), v1a = vin_u32(), ps = vin_u32(), pa = vin_u32();
    /* each host stores the checksum of its own byte image in its own byte order */
    uint32_t stored_m = r_be32(b2 + O_MCHK);       /* logical stored metadata checksum */
    ASSUME(r_order(b2) == 2);
#ifndef UNSEALED
    ASSUME(r_accept(b2, v2s, v2a));
    /* the twin was sealed by its writer the same way: same logical relation to its own CRC */
    ASSUME((stored_m == v2s) == (stored_m == v1s) && (stored_m == v2a) == (stored_m == v1a));
#endif
    b1[O_MCHK] = (uint8_t)stored_m; b1[O_MCHK + 1] = (uint8_t)(stored_m >> 8); b1[O_MCHK + 2] = (uint8_t)(stored_m >> 16); b1[O_MCHK + 3] = (uint8_t)(stored_m >> 24);
    uint32_t size = r_be32(b2 + O_SIZE);
    uf_define(0, &f2->h.meta, sizeof(fragment_metadata_t), v2s); uf_define(1, &f2->h.meta, sizeof(fragment_metadata_t), v2a);
    uf_define(0, &f1->h.meta, sizeof(fragment_metadata_t), v1s); uf_define(1, &f1->h.meta, sizeof(fragment_metadata_t), v1a);
    uf_define(0, f2->pay, size, ps); uf_define(1, f2->pay, size, pa);
    uf_define(0, f1->pay, size, ps); uf_define(1, f1->pay, size, pa);

    /* header verdict */
    int i1 = is_invalid_fragment_header(&f1->h), i2 = is_invalid_fragment_header(&f2->h);
    CHECK(i1 == i2, "header validation verdict differs between native and opposite-endian twin");
    fragment_metadata_t m1, m2;
    memset(&m1, 0, sizeof m1); memset(&m2, 0, sizeof m2);
    int r1 = liberasurecode_get_fragment_metadata((char *)f1, &m1);
    int r2 = liberasurecode_get_fragment_metadata((char *)f2, &m2);
    CHECK(r1 == r2, "metadata query result differs between native and opposite-endian twin");
    if (r1 == 0 && r2 == 0) {
        CHECK(m1.idx == m2.idx, "idx differs");
        CHECK(m1.size == m2.size, "size differs");
        CHECK(m1.frag_backend_metadata_size == m2.frag_backend_metadata_size, "backend metadata size differs");
        CHECK(m1.orig_data_size == m2.orig_data_size, "orig_data_size differs");
        CHECK(m1.chksum_type == m2.chksum_type, "chksum_type differs between native and opposite-endian twin");
        for (int i = 0; i < 8; i++) CHECK(m1.chksum[i] == m2.chksum[i], "chksum differs");
        CHECK(m1.backend_id == m2.backend_id, "backend_id differs");
        CHECK(m1.backend_version == m2.backend_version, "backend_version differs");
        CHECK(m1.chksum_mismatch == m2.chksum_mismatch, "payload checksum mismatch is not detected equally");
        /* and the native values are the logical ones */
        CHECK(m2.idx == r_be32(b2 + O_IDX) && m2.size == size && m2.orig_data_size == r_be64(b2 + O_ORIG) &&
              m2.backend_version == r_be32(b2 + O_BEVER) && m2.chksum[0] == r_be32(b2 + O_CHK) && m2.backend_id == b2[O_BEID],
              "opposite-endian metadata are not the logical values");
    }
    WITNESS();
    return 0;
}
