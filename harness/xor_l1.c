/* L1 harness for the built-in flat-XOR code (C05, XOR part of C01/C02/C03).
 * Real init_xor_hd_code / xor_code_encode / xor_hd_decode / xor_reconstruct_one on typed harness
 * buffers; payload symbolic (B bytes per fragment); oracle = the frozen independent equations
 * (model/xor_eq.c) and the symbolic original data.
 * -DSETS="{a,b,..,-1},..."  batch of concrete erasure lists (each -1 terminated, width SW)
 * -DBAND=1  the sets have hd <= |E| <= m: only "error or exact" is required (C02)
 * -DSYMSET  one symbolic erasure list with |E| < hd instead of SETS */
#include "vh.h"
#include "xor_code.h"
#include "xor_eq.h"
#ifndef B
#define B 4
#endif
#ifndef SW
#define SW 4
#endif
#define NN (K + M)
#define ALIGN16 __attribute__((aligned(16)))

static uint8_t orig[NN][B] ALIGN16;
static uint8_t work[NN][B + 16] ALIGN16;   /* stride keeps every buffer 16-byte aligned */

#ifndef SYMSET
static const int sets[][SW] = { SETS };
#define NSETS ((int)(sizeof sets / sizeof sets[0]))
#endif

static void load(char **data, char **parity, const int *miss)
{
    for (int i = 0; i < NN; i++) {
        int gone = 0;
        for (int j = 0; j < SW && miss[j] >= 0; j++) if (miss[j] == i) gone = 1;
        for (int b = 0; b < B; b++) work[i][b] = gone ? 0 : orig[i][b];   /* front end hands zero-filled buffers */
        if (i < K) data[i] = (char *)work[i]; else parity[i - K] = (char *)work[i];
    }
}

int main(void)
{
    xor_code_t *code = init_xor_hd_code(K, M, HD);
    CHECK(code != NULL, "supported shape must initialise");
    ASSUME(code != NULL);
    const struct xor_eq *eq = xor_eq_find(K, M, HD);
    CHECK(eq != NULL, "reference equations exist");
    /* (i) the two redundant tables describe the frozen equations */
    for (int j = 0; j < M; j++) CHECK(code->parity_bms[j] == eq->eq[j], "parity-side table differs from the reference equations");
    for (int i = 0; i < K; i++)
        for (int j = 0; j < M; j++)
            CHECK(((code->data_bms[i] >> j) & 1u) == ((eq->eq[j] >> i) & 1u), "data-side table differs from the reference equations");
    for (int i = 0; i < K; i++) CHECK((code->data_bms[i] >> M) == 0, "data-side table names a parity index >= m");
    for (int j = 0; j < M; j++) CHECK((code->parity_bms[j] >> K) == 0, "parity-side table names a data index >= k");

    char *data[K], *parity[M];
    static const int none[SW] = { -1, -1, -1, -1 };
    for (int i = 0; i < K; i++) vin_bytes(orig[i], B);
    /* (ii) encode */
    static int enc_miss[SW];
    for (int j = 0; j < SW; j++) enc_miss[j] = -1;
    load(data, parity, none);
    for (int j = 0; j < M; j++) for (int b = 0; b < B; b++) work[K + j][b] = 0;
    code->encode(code, data, parity, B);
    for (int j = 0; j < M; j++) {
        int ok = 1;
        for (int b = 0; b < B; b++) {
            uint8_t x = 0;
            for (int i = 0; i < K; i++) if ((eq->eq[j] >> i) & 1u) x ^= orig[i][b];
            ok &= (work[K + j][b] == x);
            orig[K + j][b] = x;
        }
        CHECK(ok, "parity fragment is not the XOR of the data fragments its equation names");
    }
    for (int i = 0; i < K; i++) { int ok = 1; for (int b = 0; b < B; b++) ok &= (work[i][b] == orig[i][b]); CHECK(ok, "encode modified a data fragment"); }

#ifdef SYMSET
    int miss[SW];
    int cnt = 0;
    for (int j = 0; j < SW; j++) miss[j] = -1;
    for (int j = 0; j < HD - 1; j++) {
        int v = vin_range(-1, NN - 1);
        miss[j] = v;
        if (j > 0) ASSUME(miss[j - 1] >= 0 ? (v == -1 || v > miss[j - 1]) : v == -1);   /* strictly increasing, -1 padded */
    }
    {
#else
    for (int s = 0; s < NSETS; s++) {
        const int *miss0 = sets[s];
        int miss[SW];
        for (int j = 0; j < SW; j++) miss[j] = miss0[j];
#endif
        /* (iv) decode */
        int m2[SW + 1];
        for (int j = 0; j < SW; j++) m2[j] = miss[j];
        m2[SW] = -1;
        load(data, parity, miss);
        int rc = code->decode(code, data, parity, m2, B, 1);
#ifdef BAND
        if (rc >= 0) {
#else
        CHECK(rc == 0, "decode of fewer than hd erasures must succeed");
        {
#endif
            int ok = 1;
            for (int i = 0; i < NN; i++) for (int b = 0; b < B; b++) ok &= (work[i][b] == orig[i][b]);
            CHECK(ok, "decode reported success with bytes that differ from the original stripe");
        }
#ifndef BAND
        /* reconstruct every erased index on its own */
        for (int t = 0; t < SW && miss[t] >= 0; t++) {
            for (int j = 0; j < SW; j++) m2[j] = miss[j];
            load(data, parity, miss);
            xor_reconstruct_one(code, data, parity, m2, miss[t], B);
            int ok = 1;
            for (int b = 0; b < B; b++) ok &= (work[miss[t]][b] == orig[miss[t]][b]);
            CHECK(ok, "xor_reconstruct_one produced bytes that differ from the original fragment");
            /* survivors untouched */
            for (int i = 0; i < NN; i++) {
                int gone = 0;
                for (int j = 0; j < SW && miss[j] >= 0; j++) if (miss[j] == i) gone = 1;
                if (!gone) { int same = 1; for (int b = 0; b < B; b++) same &= (work[i][b] == orig[i][b]); CHECK(same, "reconstruct modified a surviving fragment"); }
            }
        }
#endif
    }
    free(code);
    WITNESS();
    return 0;
}
