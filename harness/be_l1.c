/* L1: back-end operations at the plug-in interface (struct ec_backend_op_stubs) of
 * liberasurecode_rs_vand (BE=6), isa_l_rs_vand (4), isa_l_rs_cauchy (7), flat_xor_hd (3):
 * init / encode / decode / reconstruct / exit on typed harness buffers, symbolic payload
 * (W words per fragment), concrete erasure sets (batch), oracle = reference encoder
 * (model/ref_format.c) and the symbolic original stripe.
 * -DSETS=...  -DSW=n   erasure lists (each -1 padded to SW)
 * -DBAND       sets beyond tolerance: "error or exact" only (C02)
 * -DSPLIT      split oracle (DESIGN D6) for shapes where "decode == original" is XOR-hard for SAT:
 *              survivors are FREE symbolic words; the expected output is sum_l inv[i][l]*surv_l with
 *              inv = the model's own inverse of the surviving reference generator rows, checked
 *              concretely to satisfy inv*G_S == I (so expected == original for real codewords by
 *              linearity - the one algebraic step outside the solver)
 * -DFORCE_SINGULAR  ISA-L: gf_invert_matrix reports failure -> decode/reconstruct must fail (C19/C17) */
#include "vh.h"
#include "inst.h"
#include "ref_format.h"
#include "erasurecode_backend.h"
#ifndef W
#define W 1
#endif
#ifndef SW
#define SW 4
#endif
#define PB (W * BE_WBYTES)
extern struct ec_backend_common backend_liberasurecode_rs_vand, backend_isa_l_rs_vand, backend_isa_l_rs_cauchy, backend_flat_xor_hd;
#if BE == 6
#define COMMON backend_liberasurecode_rs_vand
#elif BE == 4
#define COMMON backend_isa_l_rs_vand
#elif BE == 7
#define COMMON backend_isa_l_rs_cauchy
#else
#define COMMON backend_flat_xor_hd
#endif

static uint8_t orig[N][PB] __attribute__((aligned(16)));
static uint8_t work[N][PB + 16] __attribute__((aligned(16)));
static const int sets[][SW] = { SETS };
#define NSETS ((int)(sizeof sets / sizeof sets[0]))

#ifdef SPLIT
#if BE == 6
#define FMUL m16_mul
#define FINV m16_inv
#else
#define FMUL m8_mul
#define FINV m8_inv
#endif
static uint32_t G[N][K], A[K][K], INV[K][K];
static uint8_t fresh[N][PB], expect[N][PB], expectf[N][PB];
static int model_invert(void)
{
    for (int i = 0; i < K; i++) for (int j = 0; j < K; j++) INV[i][j] = (i == j);
    for (int c = 0; c < K; c++) {
        int p = -1;
        for (int r = c; r < K; r++) if (A[r][c] != 0) { p = r; break; }
        if (p < 0) return -1;
        if (p != c) for (int j = 0; j < K; j++) { uint32_t t = A[p][j]; A[p][j] = A[c][j]; A[c][j] = t; t = INV[p][j]; INV[p][j] = INV[c][j]; INV[c][j] = t; }
        uint32_t iv = FINV(A[c][c]);
        for (int j = 0; j < K; j++) { A[c][j] = FMUL(A[c][j], iv); INV[c][j] = FMUL(INV[c][j], iv); }
        for (int r = 0; r < K; r++) if (r != c && A[r][c] != 0) {
            uint32_t f = A[r][c];
            for (int j = 0; j < K; j++) { A[r][j] ^= FMUL(f, A[c][j]); INV[r][j] ^= FMUL(f, INV[c][j]); }
        }
    }
    return 0;
}
/* acc[0..PB) ^= coef * src[0..PB) in the code's word size */
static void axpy(uint8_t *acc, const uint8_t *src, uint32_t coef)
{
#if BE == 6
    for (int b = 0; b + 1 < PB; b += 2) {
        uint32_t w = src[b] | ((uint32_t)src[b + 1] << 8), p = m16_mul(w, coef);
        acc[b] ^= (uint8_t)p; acc[b + 1] ^= (uint8_t)(p >> 8);
    }
#else
    for (int b = 0; b < PB; b++) acc[b] ^= (uint8_t)m8_mul(src[b], coef);
#endif
}
#endif

static int gone(const int *miss, int i) { for (int j = 0; j < SW && miss[j] >= 0; j++) if (miss[j] == i) return 1; return 0; }
static void load(char **data, char **parity, const int *miss)
{
    for (int i = 0; i < N; i++) {
        int g = gone(miss, i);
        for (int b = 0; b < PB; b++) work[i][b] = g ? 0 : orig[i][b];
        if (i < K) data[i] = (char *)work[i]; else parity[i - K] = (char *)work[i];
    }
}

int main(void)
{
    struct ref_cfg cfg = { BE, BE_VERSION, K, M, HD, BE_WBYTES, 1, 0 };
    struct ec_backend_args args;
    memset(&args, 0, sizeof args);
    args.uargs.k = K; args.uargs.m = M; args.uargs.hd = HD;
    struct ec_backend_op_stubs *ops = COMMON.ops;
    void *bd = ops->init(&args, dlopen(COMMON.soname, 0));
    CHECK(bd != NULL, "back-end init of a supported shape");
    ASSUME(bd != NULL);
    CHECK(ops->element_size(bd) == 8 * BE_WBYTES, "element size");
    char *data[K], *parity[M];
    static const int none[SW] = { -1, -1, -1, -1 };
    /* symbolic data; parity by the reference encoder */
    static uint8_t flat[K * PB];
    vin_bytes(flat, K * PB);
    for (int i = 0; i < N; i++) ref_payload(&cfg, flat, K * PB, i, orig[i], PB);
    /* encode */
    load(data, parity, none);
    for (int j = 0; j < M; j++) for (int b = 0; b < PB; b++) work[K + j][b] = 0;
    int rc = ops->encode(bd, data, parity, PB);
    CHECK(rc == 0, "encode");
    for (int i = 0; i < N; i++) {
        int ok = 1;
        for (int b = 0; b < PB; b++) ok &= (work[i][b] == orig[i][b]);
        CHECK(ok, "encode output differs from the reference encoder (parity) / modified data");
    }
#ifdef SPLIT
    for (int i = 0; i < N; i++) for (int j = 0; j < K; j++) G[i][j] = i < K ? (uint32_t)(i == j) : ref_coeff(&cfg, i, j);
#endif
    for (int s = 0; s < NSETS; s++) {
        int miss[SW + 1];
        for (int j = 0; j < SW; j++) miss[j] = sets[s][j];
        miss[SW] = -1;
#ifdef SPLIT
        /* free symbolic survivors; expected values from the model's linear algebra */
        int surv[K], ns = 0;
        for (int i = 0; i < N && ns < K; i++) if (!gone(miss, i)) surv[ns++] = i;
        CHECK(ns == K, "harness: erasure set within tolerance");
        for (int i = 0; i < N; i++) if (!gone(miss, i)) vin_bytes(fresh[i], PB);
        for (int r = 0; r < K; r++) for (int j = 0; j < K; j++) A[r][j] = G[surv[r]][j];
        int singular = model_invert();
        if (!singular) {
            /* (a) inv * G_S == I, concretely */
            for (int i = 0; i < K; i++) for (int j = 0; j < K; j++) {
                uint32_t acc = 0;
                for (int l = 0; l < K; l++) acc ^= FMUL(INV[i][l], G[surv[l]][j]);
                CHECK(acc == (uint32_t)(i == j), "harness: model inverse times surviving generator rows is not the identity");
            }
        }
        for (int i = 0; i < N; i++) for (int b = 0; b < PB; b++) { orig[i][b] = gone(miss, i) ? 0 : fresh[i][b]; expect[i][b] = orig[i][b]; }
        for (int i = 0; i < K; i++) if (gone(miss, i)) for (int l = 0; l < K; l++) axpy(expect[i], fresh[surv[l]], INV[i][l]);
        for (int i = K; i < N; i++) if (gone(miss, i)) for (int j = 0; j < K; j++) axpy(expect[i], expect[j], G[i][j]);
        /* the same parity values with the coefficients flattened onto the survivors
         * (sum_l (sum_j G[p][j]*M[j][l]) * surv_l): algebraically equal to the nested form above, but the solver
         * only finds the equality quickly when the reference has the structure the code under test uses:
         * rs_vand decode re-encodes parity from the rebuilt data (nested); rs_vand reconstruct and the ISA-L
         * adapters fold everything into one coefficient row (flattened) */
        for (int i = 0; i < N; i++) for (int b = 0; b < PB; b++) expectf[i][b] = expect[i][b];
        for (int i = K; i < N; i++) if (gone(miss, i)) {
            for (int b = 0; b < PB; b++) expectf[i][b] = 0;
            for (int l = 0; l < K; l++) {
                uint32_t c = 0;
                for (int j = 0; j < K; j++) {
                    uint32_t mjl = gone(miss, j) ? INV[j][l] : (uint32_t)(surv[l] == j);
                    c ^= FMUL(G[i][j], mjl);
                }
                axpy(expectf[i], fresh[surv[l]], c);
            }
        }
#if BE == 6
#define ORIG expect      /* decode: nested */
#else
#define ORIG expectf     /* ISA-L: flattened */
#endif
#define ORIGR expectf       /* reconstruct: flattened for every code */
#else
#define ORIG orig
#define ORIGR orig
#endif
        load(data, parity, miss);
#ifdef FORCE_SINGULAR
        env_isal_force_singular = 1;
#endif
        rc = ops->decode(bd, data, parity, miss, PB);
#ifdef FORCE_SINGULAR
        CHECK(rc < 0, "decode must fail when matrix inversion fails");
#elif defined(SPLIT)
        if (singular) { CHECK(rc < 0, "surviving rows are singular: decode must return an error"); continue; }
#endif
#ifndef FORCE_SINGULAR
#ifdef BAND
        if (rc >= 0)
#else
        CHECK(rc == 0, "decode within tolerance must succeed");
#endif
        {
            int ok = 1;
#ifdef BAND
            for (int i = 0; i < K; i++) for (int b = 0; b < PB; b++) ok &= (work[i][b] == ORIG[i][b]);
#else
            for (int i = 0; i < N; i++) for (int b = 0; b < PB; b++) ok &= (work[i][b] == ORIG[i][b]);
#endif
            CHECK(ok, "decode reported success with bytes that differ from the original stripe");
        }
#endif
#ifdef BAND
        /* beyond tolerance: reconstruct of every erased index must report an error or be exact */
        for (int t = 0; t < SW && sets[s][t] >= 0; t++) {
            int d = sets[s][t];
            for (int j = 0; j < SW; j++) miss[j] = sets[s][j];
            miss[SW] = -1;
            load(data, parity, miss);
            rc = ops->reconstruct(bd, data, parity, miss, d, PB);
            if (rc >= 0) {
                int ok = 1;
                for (int b = 0; b < PB; b++) ok &= (work[d][b] == orig[d][b]);
                CHECK(ok, "reconstruct beyond tolerance reported success with bytes that differ from the original fragment");
            }
        }
#endif
#ifndef BAND
        for (int t = 0; t < SW && sets[s][t] >= 0; t++) {
            int d = sets[s][t];
            for (int j = 0; j < SW; j++) miss[j] = sets[s][j];
            load(data, parity, miss);
            rc = ops->reconstruct(bd, data, parity, miss, d, PB);
#ifdef FORCE_SINGULAR
            CHECK(rc < 0, "reconstruct must fail when matrix inversion fails");
#else
            CHECK(rc == 0, "reconstruct within tolerance must succeed");
            int ok = 1;
            for (int b = 0; b < PB; b++) ok &= (work[d][b] == ORIGR[d][b]);
            CHECK(ok, "reconstructed fragment differs from the original");
            for (int i = 0; i < N; i++)
                if (!gone(sets[s], i)) { int same = 1; for (int b = 0; b < PB; b++) same &= (work[i][b] == ORIGR[i][b]); CHECK(same, "reconstruct modified a surviving fragment"); }
#endif
        }
#endif
    }
    ops->exit(bd);
    WITNESS();
    return 0;
}
