/* C14 (i): the instance registry against a set model, under a symbolic history.
 * Typed static struct ec_backend objects (no heap); liberasurecode_backend_instance_register /
 * _unregister / _get_by_desc (and liberasurecode_backend_alloc_desc underneath) are the real code.
 * The descriptor counter starts at a fully symbolic value (covers the wrap past INT_MAX and
 * negative values).  -DDEPTH=n steps over SLOTS slots.
 * -DINDUCTIVE -DORD=..: one step from an ARBITRARY well-formed registry (the driver enumerates every
 * subset of the slots in every list order; descriptors arbitrary distinct positive, counter arbitrary): the inductive step that
 * extends the claim beyond DEPTH. */
#include "vh.h"
#include "erasurecode.h"
#include "erasurecode_backend.h"
#include <limits.h>
#ifndef DEPTH
#define DEPTH 5
#endif
#ifndef SLOTS
#define SLOTS 3
#endif
extern int next_backend_desc;
int liberasurecode_backend_alloc_desc(void);
/* the registry head lives in erasurecode.c */
SLIST_HEAD(backend_list, ec_backend);
extern struct backend_list active_instances;

static struct ec_backend inst[SLOTS];
static int live[SLOTS], dsc[SLOTS];

static void check_state(void)
{
    int nlive = 0;
    for (int i = 0; i < SLOTS; i++) nlive += live[i];
    /* list is acyclic and holds exactly the live set */
    int cnt = 0;
    struct ec_backend *b = SLIST_FIRST(&active_instances);
    for (int s = 0; s < SLOTS + 1; s++) {
        if (!b) break;
        int which = -1;
        for (int i = 0; i < SLOTS; i++) if (b == &inst[i]) which = i;
        CHECK(which >= 0 && live[which], "registry lists an instance that is not live");
        if (which >= 0) CHECK(b->idesc == dsc[which], "listed instance carries a different descriptor");
        cnt++;
        b = SLIST_NEXT(b, link);
    }
    CHECK(b == NULL && cnt == nlive, "registry list is not exactly the live set (lost, duplicated or cyclic)");
    CHECK(env_lock_depth == 0, "registry lock left held");
    for (int i = 0; i < SLOTS; i++)
        for (int j = i + 1; j < SLOTS; j++)
            if (live[i] && live[j]) CHECK(dsc[i] != dsc[j], "two live instances share a descriptor");
}

static void step_on(int op, int s);
static void step(void)
{
    int op = vin_range(0, 2), s = vin_range(0, SLOTS - 1);
    /* dispatch on a concrete slot so that the instance pointer is a constant in every branch */
    if (s == 0) step_on(op, 0);
    else if (s == 1) step_on(op, 1);
#if SLOTS > 3
    else if (s == 2) step_on(op, 2);
    else step_on(op, 3);
#else
    else step_on(op, 2);
#endif
    check_state();
}
static void step_on(int op, int s)
{
    if (op == 0 && !live[s]) {
        int d = liberasurecode_backend_instance_register(&inst[s]);
        CHECK(d > 0, "register returns a positive descriptor");
        for (int i = 0; i < SLOTS; i++) if (live[i]) CHECK(dsc[i] != d, "new descriptor equals a live one");
        CHECK(inst[s].idesc == d, "instance records its descriptor");
        live[s] = 1; dsc[s] = d;
    } else if (op == 1 && live[s]) {
        int rc = liberasurecode_backend_instance_unregister(&inst[s]);
        CHECK(rc == 0, "unregister");
        live[s] = 0;
        CHECK(liberasurecode_backend_instance_get_by_desc(dsc[s]) == NULL, "descriptor still resolves after unregister");
    } else {
        int q = vin_int();
        struct ec_backend *r = liberasurecode_backend_instance_get_by_desc(q);
        struct ec_backend *e = NULL;
        for (int i = 0; i < SLOTS; i++) if (live[i] && dsc[i] == q) e = &inst[i];
        CHECK(r == e, "lookup differs from the set model (dead descriptor found or live one missed)");
    }
}

int main(void)
{
    next_backend_desc = vin_int();
#ifdef EXCL_WRAP
    ASSUME(next_backend_desc < INT_MAX - DEPTH - SLOTS);   /* the signed wrap at INT_MAX is a listed finding / fixed */
#endif
#ifdef INDUCTIVE
    /* arbitrary well-formed registry: the list order (which slots are live, in which order) is
     * enumerated by the driver (-DORD=a,b,..), descriptors and the counter are symbolic */
    static const int order[] = { ORD -1 };
    struct ec_backend *prev = NULL;
    SLIST_INIT(&active_instances);
    for (unsigned i = 0; i < sizeof order / sizeof order[0] && order[i] >= 0; i++) {
        int s = order[i];
        live[s] = 1;
        dsc[s] = vin_int();
        ASSUME(dsc[s] > 0);
        inst[s].idesc = dsc[s];
        SLIST_NEXT(&inst[s], link) = NULL;
        if (prev) SLIST_NEXT(prev, link) = &inst[s]; else SLIST_FIRST(&active_instances) = &inst[s];
        prev = &inst[s];
    }
    for (int i = 0; i < SLOTS; i++) for (int j = i + 1; j < SLOTS; j++) if (live[i] && live[j]) ASSUME(dsc[i] != dsc[j]);
    step();
#else
    for (int t = 0; t < DEPTH; t++) step();
#endif
    WITNESS();
    return 0;
}
