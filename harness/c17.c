/* C17: a failing back-end operation surfaces as a negative code, with everything released
 * (--memory-leak-check; the caller makes NO cleanup call after a failure) and the instance (or,
 * for init, the registry) usable afterwards.
 * The instance's op table is replaced through the exported lookup (as the suite's own
 * encode-failure test does) by a copy whose selected op fails when a symbolic flag says so.
 * -DOP=1 init 2 encode 3 decode 4 reconstruct 5 fragments_needed 6 real ISA-L inversion failure */
#include "vh.h"
#include "inst.h"
#include "ref_format.h"
#include "erasurecode_backend.h"
#ifndef OP
#define OP 2
#endif
#define LEN 3
#define UNIT (K * BE_WBYTES)
#define SIZE (((LEN + UNIT - 1) / UNIT) * BE_WBYTES)
#define FLEN (80 + SIZE)
static int fail_now;
static struct ec_backend_op_stubs real_ops, fake_ops;
static void *f_init(struct ec_backend_args *a, void *h) { if (fail_now) return NULL; return real_ops.init(a, h); }
static int f_encode(void *d, char **da, char **pa, int bs) { if (fail_now) return -1; return real_ops.encode(d, da, pa, bs); }
static int f_decode(void *d, char **da, char **pa, int *mi, int bs) { if (fail_now) return -1; return real_ops.decode(d, da, pa, mi, bs); }
static int f_recon(void *d, char **da, char **pa, int *mi, int di, int bs) { if (fail_now) return -1; return real_ops.reconstruct(d, da, pa, mi, di, bs); }
static int f_needed(void *d, int *a, int *b, int *c) { if (fail_now) return -101; return real_ops.fragments_needed(d, a, b, c); }
extern struct ec_backend_common backend_liberasurecode_rs_vand, backend_isa_l_rs_vand, backend_flat_xor_hd;
#if BE == 6
#define COMMON backend_liberasurecode_rs_vand
#elif BE == 4
#define COMMON backend_isa_l_rs_vand
#else
#define COMMON backend_flat_xor_hd
#endif

int main(void)
{
    struct ref_cfg cfg = { BE, BE_VERSION, K, M, HD, BE_WBYTES, CT, 0 };
    static uint8_t src[LEN];
    vin_bytes(src, LEN);
    int f1 = vin_bool();
#if OP == 1
    /* init failure: the shared descriptor of the back end gets the failing table for one create */
    real_ops = *COMMON.ops; fake_ops = real_ops; fake_ops.init = f_init;
    struct ec_backend_op_stubs *saved = COMMON.ops;
    int d0 = mk_instance();
    ASSUME(d0 > 0);
    COMMON.ops = &fake_ops; fail_now = f1;
    int d1 = mk_instance();
    COMMON.ops = saved; fail_now = 0;
    if (f1) {
        CHECK(d1 == -EBACKENDINITERR, "create must report the init failure");
        CHECK(liberasurecode_backend_instance_get_by_desc(d0) != NULL, "existing instance lost");
    } else CHECK(d1 > 0 && d1 != d0, "create");
    int d2 = mk_instance();
    CHECK(d2 > 0 && d2 != d0 && (f1 || d2 != d1), "a create after a failed init must succeed with a fresh descriptor");
    if (d1 > 0) CHECK(liberasurecode_instance_destroy(d1) == 0, "destroy");
    CHECK(liberasurecode_instance_destroy(d2) == 0 && liberasurecode_instance_destroy(d0) == 0, "destroy");
#else
    int desc = mk_instance();
    ASSUME(desc > 0);
    ec_backend_t inst = liberasurecode_backend_instance_get_by_desc(desc);
    ASSUME(inst != NULL);
    real_ops = *inst->common.ops; fake_ops = real_ops;
    fake_ops.encode = f_encode; fake_ops.decode = f_decode; fake_ops.reconstruct = f_recon; fake_ops.fragments_needed = f_needed;
    inst->common.ops = &fake_ops;
    /* fragments of the stripe, missing data fragment 0 so that decode/reconstruct reach the back end */
    char *frs[N];
    int nf = 0;
    for (int i = 1; i < N; i++) {
        uint8_t *b = malloc(FLEN);
        ASSUME(b != NULL);
        ref_fragment(&cfg, src, LEN, i, b, SIZE);
        frs[nf++] = (char *)b;
    }
    for (int round = 0; round < 2; round++) {
        /* round 0 may fail (symbolic), round 1 runs with the ops restored and must behave normally */
        fail_now = round == 0 ? f1 : 0;
#if OP == 6
        env_isal_force_singular = fail_now;
        fail_now = 0;
#define FAILED (round == 0 && f1)
#else
#define FAILED (round == 0 && f1)
#endif
#if OP == 2
        char **ed, **ep; uint64_t fl = 0;
        int rc = liberasurecode_encode(desc, (char *)src, LEN, &ed, &ep, &fl);
        if (FAILED) CHECK(rc < 0, "encode must report the back-end failure");
        else {
            CHECK(rc == 0 && fl == FLEN, "encode after a failed call must succeed");
            static uint8_t ref[FLEN];
            ref_fragment(&cfg, src, LEN, N - 1, ref, SIZE);
            int ok = 1;
            for (int j = 80; j < FLEN; j++) ok &= ((uint8_t)ep[M - 1][j] == ref[j]);
            CHECK(ok, "parity after a failed call");
            liberasurecode_encode_cleanup(desc, ed, ep);
        }
#elif OP == 3 || OP == 6
        char *out = NULL; uint64_t ol = 0;
        int rc = liberasurecode_decode(desc, frs, nf, FLEN, 0, &out, &ol);
        if (FAILED) CHECK(rc < 0, "decode must report the back-end failure");
        else {
            CHECK(rc == 0 && ol == LEN, "decode after a failed call must succeed");
            int ok = 1;
            for (int i = 0; i < LEN; i++) ok &= ((uint8_t)out[i] == src[i]);
            CHECK(ok, "decoded bytes after a failed call");
            liberasurecode_decode_cleanup(desc, out);
        }
#elif OP == 4
        uint8_t *outf = malloc(FLEN);
        ASSUME(outf != NULL);
        int rc = liberasurecode_reconstruct_fragment(desc, frs, nf, FLEN, 0, (char *)outf);
        if (FAILED) CHECK(rc < 0, "reconstruct must report the back-end failure");
        else {
            CHECK(rc == 0, "reconstruct after a failed call must succeed");
            static uint8_t ref[FLEN];
            ref_fragment(&cfg, src, LEN, 0, ref, SIZE);
            int ok = 1;
            for (int j = 0; j < FLEN; j++) ok &= (outf[j] == ref[j]);
            CHECK(ok, "reconstructed fragment after a failed call");
        }
        free(outf);
#elif OP == 5
        int r1[2] = { 0, -1 }, x1[2] = { -1, -1 }, need[N + 2];
        int rc = liberasurecode_fragments_needed(desc, r1, x1, need);
        if (FAILED) CHECK(rc < 0, "fragments_needed must report the back-end failure");
        else CHECK(rc == 0 && need[0] >= 1 && need[0] < N, "fragments_needed after a failed call");
#endif
    }
    for (int i = 0; i < nf; i++) free(frs[i]);
    inst->common.ops = COMMON.ops;
    CHECK(liberasurecode_instance_destroy(desc) == 0, "destroy");
#endif
    WITNESS();
    return 0;
}
