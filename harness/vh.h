/* Harness support: one harness source, two compilations.
 *   -DVCBMC   : goto-cc / CBMC.  vin() is a nondeterministic 64-bit value; every value drawn is
 *               logged in vin_log[] so the counter-example can be replayed.
 *   otherwise : native replay (gcc + ASan/UBSan).  vin() reads the logged values from the file
 *               named by $VERIF_REPLAY (one decimal per line); ASSUME/CHECK become run-time tests.
 */
#ifndef VH_H
#define VH_H
#include <stdint.h>
#include <stddef.h>
#include <stdlib.h>
#include <string.h>
#include <stdio.h>

/* <= --max-field-sensitivity-array-size so that every log slot is its own SSA symbol */
#define VIN_MAX 200

#ifdef VCBMC
uint64_t nondet_u64(void);
extern uint64_t vin_log[VIN_MAX];
extern unsigned vin_n;
static inline uint64_t vin(void)
{
    uint64_t v = nondet_u64();
    vin_log[vin_n++] = v;
    return v;
}
#define ASSUME(c) __CPROVER_assume(c)
#define CHECK(c, msg) __CPROVER_assert((c), "VP:" msg)
/* reachability witness: must be reported FAILURE for the obligation to count */
#define WITNESS() __CPROVER_assert(0, "WITNESS")
#else
uint64_t vin(void);
void vh_fail(const char *msg);
void vh_assume_false(const char *c);
#define ASSUME(c) do { if (!(c)) vh_assume_false(#c); } while (0)
#define CHECK(c, msg) do { if (!(c)) vh_fail("VP:" msg); } while (0)
#define WITNESS() do { puts("REPLAY-WITNESS-REACHED"); } while (0)
#endif

static inline uint8_t vin_u8(void) { return (uint8_t)vin(); }
static inline uint32_t vin_u32(void) { return (uint32_t)vin(); }
static inline int vin_int(void) { return (int)(uint32_t)vin(); }
static inline int vin_bool(void) { return (int)(vin() & 1); }
/* value in [lo,hi] */
static inline int vin_range(int lo, int hi)
{
    int v = vin_int();
    ASSUME(v >= lo && v <= hi);
    return v;
}
static inline void vin_bytes(void *p, size_t n)
{
    /* eight bytes per logged value */
    for (size_t i = 0; i < n; i += 8) {
        uint64_t v = vin();
        for (size_t j = 0; j < 8 && i + j < n; j++) ((uint8_t *)p)[i + j] = (uint8_t)(v >> (8 * j));
    }
}

/* environment model controls (env/env.c) */
extern const char *env_getenv_value;   /* what getenv("LIBERASURECODE_WRITE_LEGACY_CRC") returns */
extern int env_dlopen_fail;            /* dlopen returns NULL */
extern int env_dlsym_fail_at;          /* n-th dlsym (1-based) returns NULL; 0 = never */
extern int env_lock_depth;             /* rwlock monitor: current depth */
extern int env_isal_force_singular;
extern int env_lock_blocking;          /* C18 */
extern int env_lock_writer, env_lock_readers;
extern void (*env_yield_hook)(int id); /* C18: scheduler called at the LIBERASURECODE_VERIF_YIELD sites */    /* gf_invert_matrix reports failure */

#endif
