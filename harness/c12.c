/* C12 (and the verifier half of C10): per-fragment validation == reference verdict for every
 * header, every payload checksum outcome; stripe verification over 1..3 symbolic metadata
 * blocks.  CRCs uninterpreted (D4): the solver also ranges over all checksum values, so a
 * field edit is never masked by a stale CRC ("re-sealed" headers are a subset).
 * MODE 1: is_invalid_fragment   MODE 2: liberasurecode_verify_stripe_metadata
 * MODE 3: liberasurecode_get_fragment_metadata mismatch flag + checksummed region (C10 ii) */
#include "vh.h"
#include "env_crc_uf.h"
#include "ref_pred.h"
#include "inst.h"
#include "erasurecode_backend.h"
#include "erasurecode_helpers.h"
#include "erasurecode_helpers_ext.h"
#include "erasurecode_version.h"
#ifndef MODE
#define MODE 1
#endif
#define PAY 4
#define NFR 3

struct frag { fragment_header_t h; uint8_t pay[PAY]; } __attribute__((packed));

static int ref_meta_bad(const uint8_t *raw)
{
    uint32_t idx = r_le32(raw + O_IDX), bever = r_le32(raw + O_BEVER);
    if (idx >= (uint32_t)N) return 1;
    if (raw[O_BEID] != BE) return 1;
    if (!BE_ANYVER && bever != BE_VERSION) return 1;
    return 0;
}

int main(void)
{
    int desc = mk_instance();
    ASSUME(desc > 0);
    CHECK(LIBERASURECODE_VERSION == R_VER_RUNNING, "reference version constant out of date");
#if MODE == 1 || MODE == 3
    struct frag *f = malloc(sizeof *f);
    uint8_t saved[sizeof *f];
    ASSUME(f != NULL);
    vin_bytes(f, sizeof *f);
    for (unsigned i = 0; i < sizeof *f; i++) saved[i] = ((uint8_t *)f)[i];
    const uint8_t *raw = saved;
    uint32_t v_std = vin_u32(), v_alt = vin_u32(), p_std = vin_u32(), p_alt = vin_u32();
    int ord = r_order(raw);
    uint32_t size = ord == 2 ? r_be32(raw + O_SIZE) : r_le32(raw + O_SIZE);
    uf_define(0, &f->h.meta, sizeof(fragment_metadata_t), v_std);
    uf_define(1, &f->h.meta, sizeof(fragment_metadata_t), v_alt);
    uf_define(0, f->pay, size, p_std);
    uf_define(1, f->pay, size, p_alt);
    uint8_t ct = raw[O_CT], flag = raw[O_MISMATCH];
    uint32_t stored = ord == 2 ? r_be32(raw + O_CHK) : r_le32(raw + O_CHK);
    int crc_mismatch = (stored != p_std && stored != p_alt);
#endif
#if MODE == 1
    /* fragments whose checksum type is not CRC32 carry no verifiable checksum; a set stored
     * mismatch byte on such a fragment is outside the statement */
    ASSUME(ct == CHKSUM_CRC32 || flag == 0);
    int mismatch = ct == CHKSUM_CRC32 ? crc_mismatch : 0;
    int bad = !r_accept_host(raw, v_std, v_alt) || r_le32(raw + O_LIBVER) > R_VER_RUNNING || ref_meta_bad(raw) || mismatch;
    int impl = is_invalid_fragment(desc, (char *)f);
    CHECK(impl == 0 || impl == 1, "is_invalid_fragment returns 0 or 1");
#ifdef EXCL_IDX_EQ_N
    ASSUME(r_le32(raw + O_IDX) != (uint32_t)N);
#endif
    CHECK(impl == bad, "is_invalid_fragment differs from the reference verdict");
    for (unsigned i = 0; i < sizeof *f; i++) CHECK(((uint8_t *)f)[i] == saved[i], "validation modified the fragment");
#elif MODE == 3
    fragment_metadata_t md;
    int rc = liberasurecode_get_fragment_metadata((char *)f, &md);
    ASSUME(ord == 1);   /* host order here; the opposite order is C11 */
    CHECK((rc == 0) == (r_accept(raw, v_std, v_alt) != 0), "acceptance");
    if (rc == 0) {
        if (ct == CHKSUM_CRC32) {
            CHECK(md.chksum_mismatch == (crc_mismatch ? 1 : 0), "chksum_mismatch must be set exactly when the payload CRC differs from the stored value under both CRCs");
            CHECK(uf_std_n == 2 && uf_alt_n == 2 && !uf_overflow, "payload checksum computed over something other than (fragment+80, size)");
            CHECK(uf_std[1].calls == 1, "standard payload CRC evaluated exactly once");
        } else {
            CHECK(md.chksum_mismatch == flag, "stored mismatch flag passed through for non-CRC32 fragments");
            CHECK(uf_std[1].calls == 0 && uf_alt[1].calls == 0, "no payload checksum for non-CRC32 fragments");
        }
        CHECK(md.idx == r_le32(raw + O_IDX) && md.size == size && md.orig_data_size == r_le64(raw + O_ORIG) &&
              md.chksum_type == ct && md.chksum[0] == stored && md.backend_id == raw[O_BEID] &&
              md.backend_version == r_le32(raw + O_BEVER) && md.frag_backend_metadata_size == r_le32(raw + O_BMSIZE),
              "metadata fields are the header fields");
        /* validation then rejects a mismatching fragment */
        if (ct == CHKSUM_CRC32 && crc_mismatch) CHECK(is_invalid_fragment(desc, (char *)f) == 1, "fragment with payload checksum mismatch must be invalid");
    }
    for (unsigned i = 0; i < sizeof *f; i++) CHECK(((uint8_t *)f)[i] == saved[i], "metadata query modified the fragment");
#else
    int n = vin_range(1, NFR);
    uint8_t *mds[NFR]; char *ptrs[NFR];
    int expect_bad = 0;
    for (int i = 0; i < NFR; i++) {
        mds[i] = malloc(META_LEN);        /* exactly the 59 metadata bytes: nothing else may be read */
        ASSUME(mds[i] != NULL);
        vin_bytes(mds[i], META_LEN);
        ptrs[i] = (char *)mds[i];
        ASSUME(mds[i][O_MISMATCH] <= 1);
#ifdef EXCL_IDX_EQ_N
        ASSUME(r_le32(mds[i] + O_IDX) != (uint32_t)N);
#endif
        if (i < n && (ref_meta_bad(mds[i]) || mds[i][O_MISMATCH] == 1)) expect_bad = 1;
    }
    int rc = liberasurecode_verify_stripe_metadata(desc, ptrs, n);
    CHECK(expect_bad ? rc < 0 : rc == 0, "verify_stripe_metadata differs from the reference verdict");
#endif
    WITNESS();
    return 0;
}
