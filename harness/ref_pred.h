/* Reference predicates over raw header bytes, written from the statements of C09-C12
 * (not from the implementation). */
#ifndef REF_PRED_H
#define REF_PRED_H
#include <stdint.h>
#define R_MAGIC 0x0b0c5eccu
#define R_VER_120 0x010200u
#define R_VER_RUNNING 0x010604u  /* cross-checked against LIBERASURECODE_VERSION in the harness */

static inline uint32_t r_le32(const uint8_t *b) { return (uint32_t)b[0] | ((uint32_t)b[1] << 8) | ((uint32_t)b[2] << 16) | ((uint32_t)b[3] << 24); }
static inline uint32_t r_be32(const uint8_t *b) { return (uint32_t)b[3] | ((uint32_t)b[2] << 8) | ((uint32_t)b[1] << 16) | ((uint32_t)b[0] << 24); }
static inline uint64_t r_le64(const uint8_t *b) { return (uint64_t)r_le32(b) | ((uint64_t)r_le32(b + 4) << 32); }
static inline uint64_t r_be64(const uint8_t *b) { return (uint64_t)r_be32(b + 4) | ((uint64_t)r_be32(b) << 32); }

/* byte offsets of the wire format (C07) */
enum { O_IDX = 0, O_SIZE = 4, O_BMSIZE = 8, O_ORIG = 12, O_CT = 20, O_CHK = 21, O_MISMATCH = 53, O_BEID = 54,
       O_BEVER = 55, O_MAGIC = 59, O_LIBVER = 63, O_MCHK = 67, O_PAD = 71, HDR_LEN = 80, META_LEN = 59 };

/* 0 = not a header; 1 = host (little-endian) order; 2 = opposite order */
static inline int r_order(const uint8_t *h)
{
    if (r_le32(h + O_MAGIC) == R_MAGIC) return 1;
    if (r_be32(h + O_MAGIC) == R_MAGIC) return 2;
    return 0;
}

/* C09: acceptable header, given the two checksum values of the 59 metadata bytes */
static inline int r_accept(const uint8_t *h, uint32_t v_std, uint32_t v_alt)
{
    int ord = r_order(h);
    if (ord == 0) return 0;
    uint32_t ver = ord == 1 ? r_le32(h + O_LIBVER) : r_be32(h + O_LIBVER);
    uint32_t cs = ord == 1 ? r_le32(h + O_MCHK) : r_be32(h + O_MCHK);
    if (ver == 0) return 0;
    if (ver < R_VER_120) return 1;
    return cs == v_std || cs == v_alt;
}
static inline int r_accept_host(const uint8_t *h, uint32_t v_std, uint32_t v_alt)
{
    return r_order(h) == 1 && r_accept(h, v_std, v_alt);
}
#endif
