/* C07 / C08 / C10(i) / C12 corollary / C15: public liberasurecode_encode on symbolic data.
 * Every byte of every fragment == independent serializer (model/ref_format.c); fragment length
 * and size queries agree; fragments validate; caller's data untouched and never over-read
 * (the data buffer is an exact-size heap object).
 * -DLEN=n : input length (enumerated by the driver: a symbolic length makes every size-dependent
 *           loop bound symbolic, which symbolic execution cannot fold); the LEN bytes are symbolic.
 * -DLEGACY=c : getenv("LIBERASURECODE_WRITE_LEGACY_CRC") returns case c of {unset,"","0","1","yes","00","0x","no"} */
#include "vh.h"
#include "inst.h"
#include "ref_format.h"
#ifdef UFCRC
#include "env_crc_uf.h"
unsigned long crc32(unsigned long crc, const unsigned char *buf, unsigned int len);
int liberasurecode_crc32_alt(int crc, const void *buf, size_t size);
#endif
#include "erasurecode_backend.h"
#include "erasurecode_helpers.h"
#ifndef LEN
#define LEN 1
#endif
#define UNIT (K * BE_WBYTES)
#define NBLK ((LEN + UNIT - 1) / UNIT)
#define LMAX (NBLK * UNIT)
#define SIZE (NBLK * BE_WBYTES)
#define FLEN (80 + SIZE)

int main(void)
{
    struct ref_cfg cfg = { BE, BE_VERSION, K, M, HD, BE_WBYTES, CT, 0 };
#ifdef LEGACY
    /* value of LIBERASURECODE_WRITE_LEGACY_CRC, enumerated by the driver */
    static const char *const envcases[] = { NULL, "", "0", "1", "yes", "00", "0x", "no" };
    env_getenv_value = envcases[LEGACY];
    cfg.legacy_crc = (LEGACY >= 3);   /* set, non-empty and not exactly "0" */
#endif
#ifdef PRELUDE
    /* history: another instance of the same back end encodes one byte while the legacy switch has the OPPOSITE
     * setting; the result below must not remember it (C15: output is a function of configuration, data and the
     * current environment only) */
    {
        const char *now = env_getenv_value;
        env_getenv_value = (now && now[0] && !(now[0] == '0' && !now[1])) ? NULL : "1";
        int d0 = mk_instance();
        ASSUME(d0 > 0);
        char **e0 = NULL, **p0 = NULL; uint64_t f0 = 0; char one = 'q';
        if (liberasurecode_encode(d0, &one, 1, &e0, &p0, &f0) == 0) liberasurecode_encode_cleanup(d0, e0, p0);
        liberasurecode_instance_destroy(d0);
        env_getenv_value = now;
    }
#endif
    int desc = mk_instance();
    ASSUME(desc > 0);
    static uint8_t src[LMAX + 1];
    vin_bytes(src, LMAX);
    uint64_t len = LEN;
    char *data = malloc(len);          /* exact size */
    ASSUME(data != NULL);
    memcpy(data, src, len);
    char **ed = NULL, **ep = NULL;
    uint64_t flen = 0;
    int rc = liberasurecode_encode(desc, data, len, &ed, &ep, &flen);
    CHECK(rc == 0, "encode of a valid buffer must succeed");
    if (rc == 0) {
        CHECK(flen == FLEN, "fragment_len == 80 + ceil(len/(k*w))*w");
        CHECK(ref_payload_size(&cfg, len) == SIZE, "reference payload size");
        /* C08 */
        CHECK(liberasurecode_get_fragment_size(desc, (int)len) + 80 == (int)flen, "get_fragment_size + 80 == fragment_len of encode");
        CHECK(liberasurecode_get_aligned_data_size(desc, len) == LMAX, "aligned data size == smallest multiple of k*w >= len");
        CHECK(liberasurecode_get_minimum_encode_size(desc) == UNIT, "minimum encode size == aligned size of 1");
        static uint8_t ref[FLEN];
        for (int i = 0; i < N; i++) {
            const uint8_t *fr = (const uint8_t *)(i < K ? ed[i] : ep[i - K]);
#ifdef UFCRC
            /* the value the implementation obtained for exactly (payload,size) / (header,59) with the
             * expected flavour; a checksum taken over another region or with the other flavour shows
             * up as a fresh, unrelated value */
            cfg.uf = 1;
            cfg.uf_payload = cfg.legacy_crc ? (uint32_t)liberasurecode_crc32_alt(0, fr + 80, SIZE) : (uint32_t)crc32(0, fr + 80, SIZE);
            cfg.uf_meta = cfg.legacy_crc ? (uint32_t)liberasurecode_crc32_alt(0, fr, 59) : (uint32_t)crc32(0, fr, 59);
            CHECK(!uf_overflow, "too many distinct checksum regions");
#endif
            ref_fragment(&cfg, src, len, i, ref, SIZE);
            int hok = 1, pok = 1;
            for (int b = 0; b < 80; b++) hok &= (fr[b] == ref[b]);
            for (int b = 80; b < FLEN; b++) pok &= (fr[b] == ref[b]);
            CHECK(hok, "fragment header bytes differ from the reference serializer");
            CHECK(pok, "fragment payload bytes differ from the reference serializer");
#ifdef UFCRC
            /* only with uninterpreted CRCs: with concrete CRCs the never-taken fall-back to the
             * table-driven historical CRC dominates the query */
            CHECK(is_invalid_fragment(desc, (char *)fr) == 0, "a fragment just encoded must validate as good");
#endif
        }
        char *all[N];
        for (int i = 0; i < N; i++) all[i] = i < K ? ed[i] : ep[i - K];
        CHECK(liberasurecode_verify_stripe_metadata(desc, all, N) == 0, "stripe just encoded must verify");
        int same = 1;
        for (unsigned i = 0; i < LMAX; i++) if (i < len) same &= ((uint8_t)data[i] == src[i]);
        CHECK(same, "encode modified the caller's data");
        CHECK(liberasurecode_encode_cleanup(desc, ed, ep) == 0, "encode_cleanup");
    }
    free(data);
    CHECK(liberasurecode_instance_destroy(desc) == 0, "destroy");
    WITNESS();
    return 0;
}
