/* C13: invalid arguments are refused with a negative code, nothing stays allocated
 * (--memory-leak-check), no memory fault.  One MODE per entry point; every pointer argument is a
 * nondeterministic choice between a valid object and NULL, integers are symbolic.
 * A call is checked only when at least one argument is in the statement's invalid set (the
 * all-valid case is C01/C03/C07). */
#include "vh.h"
#include "inst.h"
#include "ref_format.h"
#include "erasurecode_backend.h"
#include "erasurecode_helpers.h"
#ifndef MODE
#define MODE 2
#endif
#define LEN 3
#define UNIT (K * BE_WBYTES)
#define SIZE (((LEN + UNIT - 1) / UNIT) * BE_WBYTES)
#define FLEN (80 + SIZE)

static int xor_supported(int k, int m, int hd)
{
    if (hd == 3) return (m == 6 && k >= 6 && k <= 15) || (m == 5 && k >= 5 && k <= 10) || (m == 3 && k == 3);
    if (hd == 4) return (m == 6 && k >= 6 && k <= 20) || (m == 5 && k >= 5 && k <= 10);
    return 0;
}

int main(void)
{
    struct ref_cfg cfg = { BE, BE_VERSION, K, M, HD, BE_WBYTES, CT, 0 };
#if MODE == 1
    /* instance_create with a symbolic shape: flat_xor_hd / null (cheap init) - BE selects */
    struct ec_args a;
    memset(&a, 0, sizeof a);
    a.k = vin_range(-1, 33); a.m = vin_range(-1, 33); a.hd = vin_range(0, 7); a.ct = CHKSUM_NONE;
    int use_null_args = vin_bool();
    int id = vin_range(0, 12);
#ifdef FIXED_ID
    ASSUME(id == BE || id >= EC_BACKENDS_MAX || id == 1 || id == 2 || id == 5 || id == 8);   /* this back end, an id outside the enum, or an unavailable one */
#endif
    int invalid = use_null_args || id >= EC_BACKENDS_MAX || a.k < 1 || a.m < 0 || a.k + a.m > 32 ||
                  id == 1 || id == 2 || id == 5 || id == 8 ||                      /* library not present */
                  (id == 3 && !xor_supported(a.k, a.m, a.hd));
    int rc = liberasurecode_instance_create((ec_backend_id_t)id, use_null_args ? NULL : &a);
    if (invalid) CHECK(rc < 0, "instance_create must refuse an invalid configuration with a negative code");
    else CHECK(rc > 0, "instance_create of a supported configuration returns a positive descriptor");
    if (rc > 0) {
        /* whatever creation accepted survives size queries and destroy without arithmetic faults */
        int al = liberasurecode_get_aligned_data_size(rc, 5);
        int mn = liberasurecode_get_minimum_encode_size(rc);
        int fs = liberasurecode_get_fragment_size(rc, 5);
        CHECK(al >= 5 && mn >= 1 && fs >= 1, "size queries on an accepted instance");
        CHECK(liberasurecode_instance_destroy(rc) == 0, "destroy of an accepted instance");
    }
#else
    int desc = mk_instance();
    ASSUME(desc > 0);
    int bad_desc = vin_bool();
    int other = vin_int();
    ASSUME(other != desc);
    int d = bad_desc ? other : desc;
    static uint8_t src[LEN];
    vin_bytes(src, LEN);
#if MODE == 2
    /* encode */
    int n_data = vin_bool(), n_ed = vin_bool(), n_ep = vin_bool(), n_fl = vin_bool();
    char **ed, **ep;           /* deliberately uninitialised caller variables */
    uint64_t fl;
    ASSUME(bad_desc || n_data || n_ed || n_ep || n_fl);
    int rc = liberasurecode_encode(d, n_data ? NULL : (char *)src, LEN, n_ed ? NULL : &ed, n_ep ? NULL : &ep, n_fl ? NULL : &fl);
    CHECK(rc < 0, "encode with an invalid argument must return a negative code");
#elif MODE == 3 || MODE == 4
    /* -DVAR=0: descriptor / pointer combinations (counts and lengths valid and concrete)
     *       1: fragment count symbolic in [-5,0]     2: fragment length symbolic in [0,79]
     *       3: (reconstruct) destination -DDESTV outside 0..k+m-1
     * keeping the valid positions concrete keeps the (excluded) all-valid path cheap */
    char *frags[N];
    int nfr = 0;
    for (int i = (MODE == 4 ? 1 : 0); i < N; i++) {
        uint8_t *b = malloc(FLEN);
        ASSUME(b != NULL);
        ref_fragment(&cfg, src, LEN, i, b, SIZE);
        frags[nfr++] = (char *)b;
    }
    int n_fr = 0, n_out = 0, n_len = 0;
    int nf = nfr;
    uint64_t flen = FLEN;
#if VAR == 0
    n_fr = vin_bool(); n_out = vin_bool(); n_len = vin_bool();
    ASSUME(bad_desc || n_fr || n_out || n_len);
#elif VAR == 1
    nf = vin_range(-5, 0);
    ASSUME(!bad_desc);
#elif VAR == 2
    flen = (uint64_t)vin_range(0, 79);
    ASSUME(!bad_desc);
#else
    ASSUME(!bad_desc);
#endif
#if MODE == 3
    char *out; uint64_t outlen;   /* uninitialised */
    int force = (VAR == 0) ? vin_bool() : 0;   /* symbolic only where the call returns before the fragment loops; concrete otherwise (symex would unroll the validation loop for a symbolic count) */
    int rc = liberasurecode_decode(d, n_fr ? NULL : frags, nf, flen, force, n_out ? NULL : &out, n_len ? NULL : &outlen);
    CHECK(rc < 0, "decode with an invalid argument must return a negative code");
#else
#ifndef DESTV
#define DESTV 0
#endif
    int dest = DESTV;
    uint8_t *outf = malloc(FLEN);
    ASSUME(outf != NULL);
    ASSUME(VAR != 0 || !n_len);
    int rc = liberasurecode_reconstruct_fragment(d, n_fr ? NULL : frags, nf, flen, dest, n_out ? NULL : (char *)outf);
#if VAR == 1
    CHECK(rc < 0, "reconstruct with no fragments must return a negative code");
#elif VAR != 2
    CHECK(rc < 0, "reconstruct with an invalid argument must return a negative code");
#endif
    free(outf);
#endif
    for (int i = 0; i < nfr; i++) free(frags[i]);
#elif MODE == 5
    int r1[3] = { 0, -1, -1 }, x1[3] = { -1, -1, -1 }, need[N + 2];
    int n_r = vin_bool(), n_x = vin_bool(), n_n = vin_bool();
    ASSUME(bad_desc || n_r || n_x || n_n);
    int rc = liberasurecode_fragments_needed(d, n_r ? NULL : r1, n_x ? NULL : x1, n_n ? NULL : need);
    CHECK(rc < 0, "fragments_needed with an invalid argument must return a negative code");
#elif MODE == 6
    /* metadata / validation / cleanup / destroy / size queries */
    uint8_t *b = malloc(FLEN);
    ASSUME(b != NULL);
    ref_fragment(&cfg, src, LEN, 0, b, SIZE);
    fragment_metadata_t md;
    int n_f = vin_bool(), n_md = vin_bool();
    if (n_f || n_md) CHECK(liberasurecode_get_fragment_metadata(n_f ? NULL : (char *)b, n_md ? NULL : &md) < 0, "get_fragment_metadata with a null argument");
    char *fr1[1] = { (char *)b };
    int cnt = vin_range(-3, 1);
    int n_arr = vin_bool();
    if (n_arr || cnt <= 0 || bad_desc) CHECK(liberasurecode_verify_stripe_metadata(d, n_arr ? NULL : fr1, cnt) < 0, "verify_stripe_metadata with an invalid argument");
    if (bad_desc || n_f) CHECK(is_invalid_fragment(d, n_f ? NULL : (char *)b) == 1, "is_invalid_fragment reports invalid for a null fragment or unknown descriptor");
    if (bad_desc) {
        CHECK(liberasurecode_encode_cleanup(d, NULL, NULL) < 0, "encode_cleanup on an unknown descriptor");
        CHECK(liberasurecode_decode_cleanup(d, NULL) < 0, "decode_cleanup on an unknown descriptor");
        CHECK(liberasurecode_instance_destroy(d) < 0, "destroy of an unknown descriptor");
        CHECK(liberasurecode_get_aligned_data_size(d, 7) < 0 && liberasurecode_get_minimum_encode_size(d) < 0 && liberasurecode_get_fragment_size(d, 7) < 0, "size queries on an unknown descriptor");
    }
    int bid = vin_int();
    ASSUME(bid >= EC_BACKENDS_MAX);      /* the signedness of the enum type is implementation-defined: negative values are not judged */
    CHECK(liberasurecode_backend_available((ec_backend_id_t)bid) == 0, "backend_available for an id outside the enum");
    free(b);
#endif
#if MODE == 7
    /* encode_cleanup accepts either array alone (it is also what encode's own error path passes) */
    {
        char **ed = NULL, **ep = NULL; uint64_t fl = 0;
        ASSUME(!bad_desc);
        int rc = liberasurecode_encode(desc, (char *)src, LEN, &ed, &ep, &fl);
        CHECK(rc == 0, "encode");
        if (rc == 0) {
            int first = vin_bool();
            CHECK(liberasurecode_encode_cleanup(desc, first ? ed : NULL, first ? NULL : ep) == 0, "encode_cleanup with one array");
            CHECK(liberasurecode_encode_cleanup(desc, first ? NULL : ed, first ? ep : NULL) == 0, "encode_cleanup with the other array");
        }
        CHECK(liberasurecode_decode_cleanup(desc, NULL) == 0, "decode_cleanup(NULL) on a live instance");
    }
#endif
    CHECK(liberasurecode_instance_destroy(desc) == 0, "destroy");
    /* a destroyed descriptor is refused */
    CHECK(liberasurecode_get_minimum_encode_size(desc) < 0 && liberasurecode_instance_destroy(desc) < 0, "destroyed descriptor is refused");
#endif
    WITNESS();
    return 0;
}
