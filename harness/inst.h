/* instance selection shared by the L2 harnesses: -DBE=<n> -DK= -DM= [-DHD=] [-DCT=] */
#ifndef INST_H
#define INST_H
#include "erasurecode.h"
#ifndef BE
#define BE 6
#endif
#ifndef K
#define K 2
#endif
#ifndef M
#define M 1
#endif
#ifndef HD
#define HD M
#endif
#ifndef CT
#define CT CHKSUM_NONE
#endif
#define N (K + M)
/* back-end facts the reference needs, written from the statements (C07/C08/C12) */
#if BE == 0          /* null */
#define BE_WBYTES 4
#define BE_VERSION 0x010000u   /* _VERSION(1,0,0) */
#define BE_ANYVER 1
#elif BE == 3        /* flat_xor_hd */
#define BE_WBYTES 4
#define BE_VERSION 0x010000u
#define BE_ANYVER 0
#elif BE == 4        /* isa_l_rs_vand */
#define BE_WBYTES 1
#define BE_VERSION 0x020d00u   /* 2.13.0 */
#define BE_ANYVER 0
#elif BE == 7        /* isa_l_rs_cauchy */
#define BE_WBYTES 1
#define BE_VERSION 0x020e01u   /* 2.14.1 */
#define BE_ANYVER 0
#elif BE == 6        /* liberasurecode_rs_vand */
#define BE_WBYTES 2
#define BE_VERSION 0x010000u
#define BE_ANYVER 0
#endif

static inline int mk_instance_ct(int ct)
{
    struct ec_args args;
    memset(&args, 0, sizeof args);
    args.k = K; args.m = M; args.hd = HD; args.ct = ct;
    return liberasurecode_instance_create((ec_backend_id_t)BE, &args);
}
static inline int mk_instance(void) { return mk_instance_ct(CT); }
#endif
