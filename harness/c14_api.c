/* C14 (ii): API-level life cycle over <= 3 slots with a nondeterministic operation per step.
 * Back ends per slot: 0 -> liberasurecode_rs_vand(2,1), 1 -> rs_vand(1,1) (shares the GF tables),
 * 2 -> flat_xor_hd(3,3,3), 3 -> flat_xor_hd(5,5,3) (two instances of one back end with different shapes).  Counter preset enumerated by the driver (-DPRESET).
 * Checks: descriptors positive and distinct while live; dead descriptors refused by every entry
 * point; failed creates leave nothing behind; GF tables present exactly while an RS instance is
 * live (real init/deinit reference counting, arithmetic contract-replaced); a surviving RS
 * instance still produces the right parity (first parity = XOR of the data words). */
#include "vh.h"
#include "erasurecode.h"
#include "erasurecode_backend.h"
#include <limits.h>
#ifndef DEPTH
#define DEPTH 4
#endif
#ifndef PRESET
#define PRESET 0
#endif
#define SLOTS 4
extern int next_backend_desc;
extern int *log_table;
static int live[SLOTS], dsc[SLOTS];

static int create(int s, int fail)
{
    struct ec_args a;
    memset(&a, 0, sizeof a);
    a.ct = CHKSUM_NONE;
    if (s == 0) { a.k = 2; a.m = 1; a.hd = 1; }
    else if (s == 1) { a.k = 1; a.m = 1; a.hd = 1; }
    else if (s == 2) { a.k = 3; a.m = 3; a.hd = 3; }
    else { a.k = 5; a.m = 5; a.hd = 3; }
    if (fail == 1) { a.k = 4; a.m = 3; a.hd = 3; return liberasurecode_instance_create(EC_BACKEND_FLAT_XOR_HD, &a); }   /* unsupported shape -> init fails */
    if (fail == 2) { env_dlopen_fail = 1; int r = liberasurecode_instance_create(EC_BACKEND_LIBERASURECODE_RS_VAND, &a); env_dlopen_fail = 0; return r; }
    return liberasurecode_instance_create(s >= 2 ? EC_BACKEND_FLAT_XOR_HD : EC_BACKEND_LIBERASURECODE_RS_VAND, &a);
}

static void use(int s)
{
    /* encode two symbolic bytes and look at the first parity: XOR of the data for every code here */
    uint8_t src[20];
    int k = s == 0 ? 2 : s == 1 ? 1 : s == 2 ? 3 : 5, w = s >= 2 ? 4 : 2;
    vin_bytes(src, 20);
    char **ed = NULL, **ep = NULL; uint64_t fl = 0;
    int len = k * w;
    int rc = liberasurecode_encode(dsc[s], (char *)src, len, &ed, &ep, &fl);
    CHECK(rc == 0 && fl == (uint64_t)(80 + w), "a live instance encodes");
    if (rc == 0) {
        if (s < 2) {
            int ok = 1;
            for (int b = 0; b < w; b++) { uint8_t x = 0; for (int i = 0; i < k; i++) x ^= src[i * w + b]; ok &= ((uint8_t)ep[0][80 + b] == x); }
            CHECK(ok, "first RS parity of a surviving instance is not the XOR of the data");
        } else {
            int ok = 1;   /* (3,3,3): parity0 = d0 ^ d2;  (5,5,3): parity0 = d0 ^ d1 */
            int other = s == 2 ? 2 : 1;
            for (int b = 0; b < w; b++) ok &= ((uint8_t)ep[0][80 + b] == (uint8_t)(src[b] ^ src[other * w + b]));
            CHECK(ok, "flat-XOR parity of a surviving instance");
        }
        liberasurecode_encode_cleanup(dsc[s], ed, ep);
    }
}

static void dead_refused(int d)
{
    char *frs[1] = { NULL }; char *o; uint64_t ol; int l1[2] = { 0, -1 }, l2[2] = { -1, -1 }, l3[8];
    char buf[96]; char **ed, **ep; uint64_t fl;
    CHECK(liberasurecode_encode(d, buf, 4, &ed, &ep, &fl) < 0, "encode on a dead descriptor");
    CHECK(liberasurecode_decode(d, frs, 1, 96, 0, &o, &ol) < 0, "decode on a dead descriptor");
    CHECK(liberasurecode_reconstruct_fragment(d, frs, 1, 96, 0, buf) < 0, "reconstruct on a dead descriptor");
    CHECK(liberasurecode_fragments_needed(d, l1, l2, l3) < 0, "fragments_needed on a dead descriptor");
    CHECK(liberasurecode_get_fragment_size(d, 4) < 0 && liberasurecode_get_aligned_data_size(d, 4) < 0 && liberasurecode_get_minimum_encode_size(d) < 0, "size queries on a dead descriptor");
    CHECK(liberasurecode_encode_cleanup(d, NULL, NULL) < 0 && liberasurecode_decode_cleanup(d, NULL) < 0, "cleanup on a dead descriptor");
    CHECK(liberasurecode_instance_destroy(d) < 0, "destroy on a dead descriptor");
    CHECK(is_invalid_fragment(d, buf) == 1, "validation on a dead descriptor");
}

int main(void)
{
    static const int presets[] = { 0, 1, INT_MAX - 2, INT_MAX - 1, INT_MAX, INT_MIN, -1 };
    next_backend_desc = presets[PRESET];
    /* history enumerated by the driver: -DSEQ=op,op,...  (0..2 create slot, 10..12 destroy slot,
     * 20..22 use slot, 30/31 failing create: unsupported shape / dlopen failure); data symbolic */
    static const int seq[] = { SEQ };
    for (unsigned t = 0; t < sizeof seq / sizeof seq[0]; t++) {
        int code = seq[t], op = code / 10, s = code % 10;
        if (op == 0) {
            CHECK(!live[s], "harness: create on a live slot");
            int d = create(s, 0);
            CHECK(d > 0, "create returns a positive descriptor");
            for (int i = 0; i < SLOTS; i++) if (live[i]) CHECK(dsc[i] != d, "new descriptor equals a live one");
            live[s] = 1; dsc[s] = d;
        } else if (op == 1) {
            CHECK(live[s], "harness: destroy on a dead slot");
            CHECK(liberasurecode_instance_destroy(dsc[s]) == 0, "destroy of a live instance");
            live[s] = 0;
            dead_refused(dsc[s]);
        } else if (op == 2) {
            CHECK(live[s], "harness: use of a dead slot");
            use(s);
        } else {
            int d = create(s, 1 + s);
            CHECK(d < 0, "failed create returns a negative code");
            for (int q = 0; q < SLOTS; q++) if (live[q]) CHECK(liberasurecode_backend_instance_get_by_desc(dsc[q]) != NULL, "live instance lost by a failed create");
        }
        CHECK((log_table != NULL) == (live[0] || live[1]), "GF tables must exist exactly while an RS instance is live");
    }
    for (int s = 0; s < SLOTS; s++) if (live[s]) { use(s); CHECK(liberasurecode_instance_destroy(dsc[s]) == 0, "final destroy"); }
    CHECK(log_table == NULL, "GF tables released after the last RS instance");
    WITNESS();
    return 0;
}
