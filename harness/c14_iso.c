/* C14 (isolation at the plug-in interface): two instances of ONE back end with different shapes are
 * independent objects: creating the second does not change what the first computes, destroying
 * either leaves the other fully functional.  Op-table level (init/encode/exit of the adapter), data
 * symbolic.  -DBE=3 flat_xor_hd (3,3,3)+(5,5,3); 6 rs_vand (2,1)+(1,1); 4 isa_l_rs_vand (2,1)+(3,1).
 * -DORDER2=0: destroy the second first; 1: destroy the first, then use the second. */
#include "vh.h"
#include "erasurecode.h"
#include "erasurecode_backend.h"
#ifndef BE
#define BE 3
#endif
#ifndef ORDER2
#define ORDER2 0
#endif
extern struct ec_backend_common backend_liberasurecode_rs_vand, backend_isa_l_rs_vand, backend_flat_xor_hd;
#if BE == 6
#define COMMON backend_liberasurecode_rs_vand
#define K1 2
#define M1 1
#define K2 1
#define M2 1
#define WB 2
#elif BE == 4
#define COMMON backend_isa_l_rs_vand
#define K1 2
#define M1 1
#define K2 3
#define M2 1
#define WB 1
#else
#define COMMON backend_flat_xor_hd
#define K1 3
#define M1 3
#define K2 5
#define M2 5
#define WB 4
#endif
#define KMAX 5
#define MMAX 5
static uint8_t dat[KMAX][WB + 12] __attribute__((aligned(16))), par[MMAX][WB + 12] __attribute__((aligned(16)));

/* first parity of every code used here is a plain XOR: rs (all ones row), isa-l rs (gen^0 row), xor(3,3,3): d0^d2, xor(5,5,3): d0^d1 */
static void enc_check(struct ec_backend_op_stubs *ops, void *bd, int k, int m, int first)
{
    char *d[KMAX], *p[MMAX];
    for (int i = 0; i < k; i++) { vin_bytes(dat[i], WB); d[i] = (char *)dat[i]; }
    for (int j = 0; j < m; j++) { for (int b = 0; b < WB; b++) par[j][b] = 0; p[j] = (char *)par[j]; }
    CHECK(ops->encode(bd, d, p, WB) == 0, "encode");
    int ok = 1;
    for (int b = 0; b < WB; b++) {
        uint8_t x = 0;
#if BE == 3
        x = first ? (uint8_t)(dat[0][b] ^ dat[2][b]) : (uint8_t)(dat[0][b] ^ dat[1][b]);
#else
        for (int i = 0; i < k; i++) x ^= dat[i][b];
#endif
        ok &= (par[0][b] == x);
    }
    CHECK(ok, "an instance computes wrong parity while/after another instance of the same back end exists");
}

int main(void)
{
    struct ec_backend_op_stubs *ops = COMMON.ops;
    struct ec_backend_args a1, a2;
    memset(&a1, 0, sizeof a1); memset(&a2, 0, sizeof a2);
    a1.uargs.k = K1; a1.uargs.m = M1; a1.uargs.hd = (BE == 3 ? 3 : M1);
    a2.uargs.k = K2; a2.uargs.m = M2; a2.uargs.hd = (BE == 3 ? 3 : M2);
    void *h = dlopen(COMMON.soname, 0);
    void *b1 = ops->init(&a1, h);
    ASSUME(b1 != NULL);
    enc_check(ops, b1, K1, M1, 1);
    void *b2 = ops->init(&a2, h);
    ASSUME(b2 != NULL);
    if (b1 == b2) {     /* concrete pointer comparison: nothing after it is explored in that case */
        CHECK(0, "two instances share one back-end descriptor");
        return 0;
    }
    enc_check(ops, b1, K1, M1, 1);          /* the older instance is unaffected by the creation of the newer one */
    enc_check(ops, b2, K2, M2, 0);
#if ORDER2 == 0
    ops->exit(b2);
    enc_check(ops, b1, K1, M1, 1);
    ops->exit(b1);
#else
    ops->exit(b1);
    enc_check(ops, b2, K2, M2, 0);
    ops->exit(b2);
#endif
    WITNESS();
    return 0;
}
