/* C15 (determinism): the bytes encode produces for (configuration, data) do not depend on what
 * happened before: encode, then an unrelated activity (one of five, enumerated by the driver) (create/destroy
 * of another instance of the same or another back end, an encode on another instance, a failing
 * call, a destroyed-descriptor call), then encode again on a second instance created afterwards
 * AND on the first one: all three results byte-identical.  (Equality with the reference
 * serializer is C07; untouched / exactly-bounded inputs are asserted in the C07 and L2 harnesses.) */
#include "vh.h"
#include "inst.h"
#include "erasurecode_backend.h"
#define LEN 5
#ifndef ACT
#define ACT 0
#endif
#define UNIT (K * BE_WBYTES)
#define SIZE (((LEN + UNIT - 1) / UNIT) * BE_WBYTES)
#define FLEN (80 + SIZE)
static uint8_t snap[3][N][FLEN];
static void enc(int desc, const uint8_t *src, int slot)
{
    char **ed = NULL, **ep = NULL; uint64_t fl = 0;
    int rc = liberasurecode_encode(desc, (char *)src, LEN, &ed, &ep, &fl);
    CHECK(rc == 0 && fl == FLEN, "encode");
    ASSUME(rc == 0);
    for (int i = 0; i < N; i++) for (int j = 0; j < FLEN; j++) snap[slot][i][j] = (uint8_t)(i < K ? ed[i] : ep[i - K])[j];
    liberasurecode_encode_cleanup(desc, ed, ep);
}
int main(void)
{
    static uint8_t src[LEN], other[LEN];
    vin_bytes(src, LEN); vin_bytes(other, LEN);
    int d1 = mk_instance();
    ASSUME(d1 > 0);
    enc(d1, src, 0);
    int act = ACT;      /* intervening activity, enumerated by the driver (a symbolic choice inlines all five activities: 7 GB) */
    struct ec_args a;
    memset(&a, 0, sizeof a);
    a.ct = CHKSUM_CRC32;
    if (act == 0) { a.k = 1; a.m = 1; a.hd = 1; int d = liberasurecode_instance_create(EC_BACKEND_LIBERASURECODE_RS_VAND, &a); if (d > 0) liberasurecode_instance_destroy(d); }
    else if (act == 1) { a.k = 3; a.m = 3; a.hd = 3; int d = liberasurecode_instance_create(EC_BACKEND_FLAT_XOR_HD, &a);
                         if (d > 0) { char **ed, **ep; uint64_t fl; if (liberasurecode_encode(d, (char *)other, LEN, &ed, &ep, &fl) == 0) liberasurecode_encode_cleanup(d, ed, ep); } /* instance left alive */ }
    else if (act == 2) { a.k = 4; a.m = 3; a.hd = 3; (void)liberasurecode_instance_create(EC_BACKEND_FLAT_XOR_HD, &a); }           /* failing create */
    else if (act == 3) { char **ed, **ep; uint64_t fl; (void)liberasurecode_encode(d1 + 7, (char *)other, LEN, &ed, &ep, &fl); }   /* unknown descriptor */
    else { env_getenv_value = "0"; }                                                                                                /* switch explicitly off */
    int d2 = mk_instance();
    ASSUME(d2 > 0);
    enc(d2, src, 1);
    enc(d1, src, 2);
    int same = 1;
    for (int i = 0; i < N; i++) for (int j = 0; j < FLEN; j++) same &= (snap[0][i][j] == snap[1][i][j] && snap[0][i][j] == snap[2][i][j]);
    CHECK(same, "encode output depends on the call history / on which instance is used");
    liberasurecode_instance_destroy(d1); liberasurecode_instance_destroy(d2);
    WITNESS();
    return 0;
}
