import itertools, random
from props.common import *
from props.xorsets import esets, fmt_sets, chunks
RS, XOR, ISAV, ISAC, NULL = 6, 3, 4, 7, 0
WB = {RS: 2, XOR: 4, ISAV: 1, ISAC: 1, NULL: 4}
BNAME = {RS: "rs", XOR: "xor", ISAV: "isalv", ISAC: "isalc", NULL: "null"}
L1_UNITS = {RS: ["be_rsvand", "rsvand", "galois_stubbed", "gf16_ref", "env", "ref_format", "xor_eq", "gf8", "null_code"],
            ISAV: ["be_isal_common", "be_isal_vand", "be_isal_cauchy", "gf8", "env", "ref_format", "xor_eq", "rsvand", "galois_stubbed", "gf16_ref", "null_code"],
            XOR: ["be_xor", "xor_code", "xor_hd_code", "env", "ref_format", "xor_eq", "gf8", "rsvand", "galois_stubbed", "gf16_ref", "null_code"]}
L1_UNITS[ISAC] = L1_UNITS[ISAV]

def be_l1_ob(be, k, m, hd, sets, w=1, band=False, singular=False, split=None, tag="l1", idx=0, timeout=900, mem=4, solver=None):
    sw = max(4, max((len(s) for s in sets), default=0) + 1)
    defs = dict(BE=be, K=k, M=m, HD=hd, W=w, SW=sw, SETS=fmt_sets(sets, sw))
    if split is None:
        split = (be != XOR and (k >= 3 or (k >= 2 and m >= 2)))
    if split and not band and not singular: defs["SPLIT"] = None
    if band: defs["BAND"] = None
    if singular: defs["FORCE_SINGULAR"] = None
    ob = Ob(id=f"{tag}-{BNAME[be]}{k}_{m}_{hd}-w{w}-{idx}", harness="be_l1.c", defs=defs, units=L1_UNITS[be],
            unwind=max(k + m + 3, w * WB[be] + 3, 36), timeout=timeout, mem_gb=mem,
            unwindset={"gf_invert_matrix.0": k * k + 2, "gf_invert_matrix.1": k * k + 2, "model_invert.0": 40, "axpy.0": 40, "ec_init_tables.0": 40, "ec_init_tables.1": 40, "ec_init_tables.2": 40},
            sample={"symbolic": f"{k}x{w*WB[be]} payload bytes", "shape": [BNAME[be], k, m, hd], "erasure_sets": [list(s) for s in sets][:4], "n_sets": len(sets),
                    "bound_payload": w * WB[be], "oracle": "error-or-exact" if band else ("split (D6): free survivors vs model linear algebra" if "SPLIT" in defs else "original stripe")},
            targets={RS: ["liberasurecode_rs_vand_init", "make_systematic_matrix", "liberasurecode_rs_vand_encode", "liberasurecode_rs_vand_decode",
                          "liberasurecode_rs_vand_reconstruct", "gaussj_inversion", "create_decoding_matrix", "region_dot_product", "region_multiply", "region_xor"],
                     ISAV: ["isa_l_common_init", "isa_l_encode", "isa_l_decode", "isa_l_reconstruct", "get_inverse_rows", "isa_l_get_decode_matrix"],
                     ISAC: ["isa_l_common_init", "isa_l_encode", "isa_l_decode", "isa_l_reconstruct", "get_inverse_rows", "isa_l_get_decode_matrix"],
                     XOR: ["flat_xor_hd_init", "flat_xor_hd_encode", "flat_xor_hd_decode", "flat_xor_hd_reconstruct"]}[be])
    if solver: ob.solver = solver
    return ob


def l2_ob(be, k, m, hd, order, ln=None, mode=1, force=0, expect=1, dest=0, ct=1, dmg=0, dmgpos=0, unalign=0, hdrdmg=None, uf=False, tag="l2", leak=False, timeout=900, mem=3):
    unit = k * WB[be]
    if ln is None:
        ln = unit + 1
    size = ((ln + unit - 1) // unit) * WB[be]
    if force and ct == 2 and mode == 1:
        uf = True     # forced checks: checksum verdicts must stay concrete for symex (constant-abstracted CRCs, see l2.c UFCONST)
    defs = dict(BE=be, K=k, M=m, HD=hd, CT=ct, LEN=ln, ORDER=",".join(map(str, order)), MODE=mode, FORCE=force, EXPECT=expect, DEST=dest)
    if unalign:
        defs["UNALIGN"] = unalign
    if dmg:
        defs["DMG"] = dmg
        defs["DMGPOS"] = dmgpos
    if hdrdmg is not None:
        defs["HDRDMG"], defs["HDRFIELD"] = hdrdmg[0], hdrdmg[1]
        if len(hdrdmg) > 2:
            defs["HDRVAL"] = f"({hdrdmg[2]})"
    if uf:
        defs["UFCRC"] = None
        if dmg or force: defs["UFCONST"] = None
    units = (uf_units() if uf else real_crc_units()) + ["ref_format", "xor_eq"]
    oid = f"{tag}-{BNAME[be]}{k}_{m}_{hd}-ct{ct}-len{ln}-m{mode}f{force}-o{'.'.join(map(str, order))}" + (f"-d{dest}" if mode == 2 else "") + (f"-dmg{dmg}p{dmgpos}" if dmg else "") + (f"-ua{unalign}" if unalign else "") + (f"-h{hdrdmg[0]}f{hdrdmg[1]}" + (f"v{hdrdmg[2]}" if len(hdrdmg) > 2 else "") if hdrdmg else "") + ("-uf" if uf else "") + (f"-e{expect}" if expect != 1 else "")
    ob = Ob(id=oid, harness="l2.c", defs=defs, units=units, unwind=max(8, k + m + 3, size + 3), timeout=timeout, mem_gb=mem,
            unwindset=dict({f"main.{i}": size + 84 for i in range(16)}, **{"ref_header.0": 84, "crc_run.0": 84, "crc_run.1": 84, "crc32.0": 84, "crc32.1": 84,
                            "ec_init_tables.0": 40, "ec_init_tables.1": 40, "ec_init_tables.2": 40, "uf_lookup.0": 30}),
            sample={"symbolic": f"{ln} data bytes" + (", damage byte/position" if dmg else "") + (", edited field value" if hdrdmg else ""), "shape": [BNAME[be], k, m, hd],
                    "supplied_fragments": list(order), "api": "decode" if mode == 1 else f"reconstruct dest={dest}", "force_metadata_checks": force, "ct": ct,
                    "expect": {1: "success+exact", 0: "error-or-exact", -1: "error"}[expect], "bound_len": ln},
            targets=["liberasurecode_decode", "fragments_to_string", "get_fragment_partition", "prepare_fragments_for_decode", "is_invalid_fragment_header"] if mode == 1 else
                    ["liberasurecode_reconstruct_fragment", "get_fragment_partition", "prepare_fragments_for_decode", "add_fragment_metadata"])
    if leak:
        ob.flags = ["--memory-leak-check"]
    return ob
