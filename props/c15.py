from props.shapes import *
from props.c07 import enc_ob

def plan(ctx):
    thorough = ctx.tier == "thorough"
    obs = []
    U = real_crc_units()
    for be, k, m, hd in [(RS, 2, 1, 1), (XOR, 3, 3, 3), (ISAV, 2, 1, 1)] + ([(RS, 3, 2, 2), (ISAC, 2, 1, 1)] if thorough else []):
        for ct in (1, 2):
            for act in range(5):
                if ctx.tier == "quick" and ct == 1 and act not in (0, 1):
                    continue
                obs.append(Ob(id=f"determinism-{BNAME[be]}{k}_{m}-ct{ct}-act{act}", harness="c15.c", defs=dict(BE=be, K=k, M=m, HD=hd, CT=ct, ACT=act), units=U, unwind=max(8, k + m + 3),
                              unwindset=dict({f"main.{i}": 100 for i in range(8)}, **{"enc.0": 100, "enc.1": 100, "crc32.0": 84, "crc32.1": 84, "ec_init_tables.0": 40, "ec_init_tables.1": 40, "ec_init_tables.2": 40}),
                              timeout=1500, mem_gb=6, sample={"symbolic": "5 data bytes, 5 unrelated bytes", "activity": ["create+destroy RS(1,1)", "create flat_xor(3,3,3), encode, leave alive", "failing create", "encode on an unknown descriptor", "legacy switch explicitly '0'"][act], "shape": [BNAME[be], k, m, hd], "ct": ct},
                              targets=["liberasurecode_encode", "liberasurecode_instance_create", "liberasurecode_instance_destroy"]))
    # inputs untouched / read exactly within bounds: the hosts assert it (exact-size heap objects + saved copies)
    import copy
    for base in (enc_ob(RS, 2, 1, 1, 2, 5, tag="history-encode"), enc_ob(RS, 2, 1, 1, 2, 5, legacy=3, tag="history-encode"), enc_ob(XOR, 3, 3, 3, 2, 13, tag="history-encode")):
        o = copy.deepcopy(base); o.defs["PRELUDE"] = None; o.id += "-prelude"; obs.append(o)
    obs.append(enc_ob(RS, 2, 1, 1, 2, 5, tag="pure-encode"))
    obs.append(enc_ob(XOR, 3, 3, 3, 1, 13, tag="pure-encode"))
    obs.append(l2_ob(RS, 2, 1, 1, [2, 1], tag="pure-decode"))
    obs.append(l2_ob(RS, 2, 2, 2, [3, 0, 2], ct=2, force=1, tag="pure-decode"))
    obs.append(l2_ob(RS, 2, 1, 1, [2, 0], mode=2, dest=1, ct=2, tag="pure-reconstruct"))
    obs.append(l2_ob(ISAV, 2, 1, 1, [2, 1], tag="pure-decode"))
    from props.c12 import plan as p12
    obs += [o for o in p12(ctx)["obs"] if "rs21" in o.id]
    return {"obs": obs,
            "assumptions": ["'never read outside [buffer, buffer+length)': every caller buffer is an exact-size object, so any over-read is a CBMC bounds failure; 'never write': compared with saved copies after the call",
                            "'which thread runs it' is covered only in the sense of C18's bound"],
            "trusted": ENV_TRUST + GF_TRUST + ISAL_TRUST + ZCRC_TRUST}
