import random
from props.shapes import *

INT_MAX = 2147483647
def plan(ctx):
    rnd = random.Random(ctx.seed or 13)
    thorough = ctx.tier == "thorough"
    obs = []
    shapes = [(RS, 2, 1, 1), (RS, 2, 2, 2)] + ([(ISAV, 2, 1, 1), (ISAC, 2, 1, 1), (RS, 3, 1, 1), (RS, 3, 2, 2), (ISAV, 3, 2, 2)] if thorough else [])
    for be, k, m, hd in shapes:
        n = k + m
        unit = k * WB[be]
        for e in esets(n, 0, m):
            surv = [i for i in range(n) if i not in e]
            dests = range(n) if thorough else sorted(set(e) | {surv[0]})    # quick: every erased index + one supplied index
            for d in dests:
                for ct in ((1, 2) if ((thorough or len(e) == m) and be == RS) else (1,)):   # checksum writing is back-end independent glue: CRC32 variants on RS only (ISA-L + real CRCs: 10 GB)
                    obs.append(l2_ob(be, k, m, hd, surv[::-1], ln=unit + 1, mode=2, dest=d, ct=ct, tag="rec"))
        emax = tuple(range(m))
        surv = [i for i in range(n) if i not in emax]
        for ln in (1, unit, 2 * unit + 1):
            obs.append(l2_ob(be, k, m, hd, surv, ln=ln, mode=2, dest=0, ct=(2 if be == RS else 1), tag="reclen"))
        obs.append(l2_ob(be, k, m, hd, surv, ln=unit + 1, mode=2, dest=0, ct=(2 if be == RS else 1), unalign=(1 << len(surv)) - 1, tag="recunal"))
        # destination outside 0..k+m-1 must be refused
        for d in (-1, n, n + 1, INT_MAX, -INT_MAX - 1):
            obs.append(l2_ob(be, k, m, hd, surv, ln=unit + 1, mode=2, dest=d, expect=-1, tag="recoob"))
            if be == RS and (k, m) == (2, 1):
                obs.append(l2_ob(be, k, m, hd, list(range(n)), ln=unit + 1, mode=2, dest=d, expect=-1, tag="recoob-all"))
    # back-end reconstruct for larger shapes (every erased index of every listed set is reconstructed in be_l1.c)
    for be, k, m, hd in [(RS, 4, 2, 2), (XOR, 3, 3, 3), (XOR, 6, 6, 4)] + ([(ISAV, 3, 2, 2), (RS, 5, 3, 3), (ISAV, 4, 2, 2), (ISAC, 4, 3, 3), (RS, 8, 4, 4), (ISAV, 8, 4, 4), (XOR, 10, 5, 3), (XOR, 12, 6, 4)] if thorough else []):
        n = k + m
        tol = hd - 1 if be == XOR else m
        sets = list(esets(n, 1, min(tol, 2)))
        if len(sets) > 16:
            sets = rnd.sample(sets, min(len(sets), 8 if not thorough else 64))
        if tol > 2:
            big = list(esets(n, tol, tol))
            sets += rnd.sample(big, min(len(big), 2 if not thorough else 8))
        for i, ch in enumerate(chunks(sets, 1)):
            obs.append(be_l1_ob(be, k, m, hd, ch, tag="l1rec", idx=i, timeout=1500))
    # a shape with more parity than data fragments: more than k (but at most m) erasures are within tolerance
    for be, k, m in [(RS, 2, 3)] + ([(RS, 3, 5), (ISAV, 2, 3)] if thorough else []):
        sets = [s for s in esets(k + m, k + 1, m)]
        for i, ch in enumerate(chunks(sets if thorough else sets[::2], 1)):
            obs.append(be_l1_ob(be, k, m, m, ch, tag="l1recmk", idx=i, timeout=1500))
    # flat-XOR reconstruct through the adapter's op table: every erasure set below hd of one hd=4 table (every erased index
    # is reconstructed on its own in be_l1.c); rare patterns (two data + one parity whose only private parity is the lost
    # one) are easy to miss by sampling
    for (k, m, hd) in [(5, 5, 4)] + ([(6, 6, 4), (10, 5, 4), (6, 6, 3)] if thorough else []):
        sets = list(esets(k + m, 1, hd - 1))
        for i, ch in enumerate(chunks(sets, 16)):
            obs.append(be_l1_ob(XOR, k, m, hd, ch, tag="l1recx", idx=i, timeout=1500))
    return {"obs": obs,
            "assumptions": ["reconstructed fragment compared byte for byte (header, both checksums, payload) with the independent serializer's fragment for the same data",
                            "LIBERASURECODE_WRITE_LEGACY_CRC unset", "L2 shapes k+m<=4 (5 in thorough); larger shapes at the back-end interface; ISA-L reconstruct is C19 in the quick tier"],
            "trusted": ENV_TRUST + GF_TRUST + ISAL_TRUST + ZCRC_TRUST + ["model/ref_format.c"]}
