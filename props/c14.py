from props.shapes import *

def plan(ctx):
    thorough = ctx.tier == "thorough"
    obs = []
    RU = ["erasurecode", "helpers", "preproc", "postproc", "crc32alt", "be_null", "be_xor", "be_isal_common", "be_isal_vand", "be_isal_cauchy", "be_rsvand",
          "galois_stubbed", "gf16_ref", "rsvand", "xor_code", "xor_hd_code", "null_code", "gf8", "env", "zcrc32"]
    import itertools
    T = ["liberasurecode_backend_instance_register", "liberasurecode_backend_instance_unregister", "liberasurecode_backend_alloc_desc", "liberasurecode_backend_instance_get_by_desc"]
    for excl in (0,):
        depth = 2 if not thorough else 3
        defs = dict(DEPTH=depth, SLOTS=3)
        if excl: defs["EXCL_WRAP"] = None
        if thorough: obs.append(Ob(id=f"registry-history-d{depth}" + ("-excl-wrap" if excl else ""), harness="c14.c", defs=defs, units=RU, unwind=8, unwindset={"liberasurecode_backend_alloc_desc.0": 8},
                      timeout=1800, mem_gb=10, sample={"symbolic": f"counter start value, {depth} x (operation, slot, lookup key)", "slots": 3, "excluded_input": "counter within reach of INT_MAX" if excl else None}, targets=T))
        for n in range(0, 4):
            for perm in itertools.permutations(range(3), n):
                defs = dict(INDUCTIVE=None, DEPTH=1, SLOTS=3, ORD="".join(f"{x}," for x in perm))
                if excl: defs["EXCL_WRAP"] = None
                obs.append(Ob(id="registry-inductive-" + ("".join(map(str, perm)) or "empty") + ("-excl-wrap" if excl else ""), harness="c14.c", defs=defs, units=RU, unwind=8,
                              unwindset={"liberasurecode_backend_alloc_desc.0": 8}, timeout=1200, mem_gb=4,
                              sample={"symbolic": "descriptors of the live instances, counter, one operation (kind, slot, lookup key)", "list_order": list(perm), "excluded_input": "counter within reach of INT_MAX" if excl else None}, targets=T))
    C0, C1, C2, D0, D1, D2, U0, U1, U2, F0, F1 = 0, 1, 2, 10, 11, 12, 20, 21, 22, 30, 31
    seqs = [[C0, C1, D0, U1], [C0, C1, D1, U0], [C1, C0, D1, U0, D0], [C0, D0, C1, U1], [C0, C2, D0, U2], [C2, C0, D2, U0], [C0, F0, U0], [F1, C0, U0], [C0, F1, C1, D0, U1],
            [C0, C1, D0, D1, C1, U1], [C0, D0, C0, U0], [C0, C1, C2, D1, U0, U2], [2, 3, 22, 23, 13, 22], [3, 2, 23, 12, 23], [2, 3, 12, 23, 2, 22, 23], [2, 3, 22], [3, 2, 23]]
    if thorough:
        seqs += [[C0, C1, C2, D0, D1, D2, C2, C1, U1, U2], [C1, D1, C1, D1, C0, U0], [C0, C1, U0, U1, D0, U1, C0, U0, D1, U0], [F0, F1, C2, F0, U2, C0, F1, U0]]
    pres = ["0", "1", "INT_MAX-2", "INT_MAX-1", "INT_MAX", "INT_MIN", "-1"]
    for i, sq in enumerate(seqs):
        for p in ([0] if i >= 3 else range(7)):
            obs.append(Ob(id=f"api-seq{i}-preset{p}", harness="c14_api.c", defs=dict(SEQ=",".join(map(str, sq)), PRESET=p), units=RU, unwind=12,
                          unwindset={"liberasurecode_backend_alloc_desc.0": 8, "crc32.0": 84, "crc32.1": 84, "main.0": 14}, timeout=1500, mem_gb=4,
                          sample={"history": sq, "encoding": "0-3 create slot, 10-13 destroy, 20-23 use, 30/31 failing create", "symbolic": "data bytes of every use", "counter_preset": pres[p]},
                          targets=["liberasurecode_instance_create", "liberasurecode_instance_destroy", "liberasurecode_encode", "rs_galois_init_tables", "rs_galois_deinit_tables"]))
    # isolation of two instances of one back end with different shapes, at the adapter's op table (cheap: no front end)
    from props.shapes import L1_UNITS, RS, XOR, ISAV, BNAME
    for be in (XOR, RS, ISAV):
        for order2 in (0, 1):
            obs.append(Ob(id=f"iso-{BNAME[be]}-order{order2}", harness="c14_iso.c", defs=dict(BE=be, ORDER2=order2), units=L1_UNITS[be], unwind=12,
                          unwindset={"ec_init_tables.0": 40, "ec_init_tables.1": 40, "ec_init_tables.2": 40, "enc_check.0": 8, "enc_check.1": 8, "enc_check.2": 8, "enc_check.3": 8},
                          flags=["--memory-leak-check"], timeout=900, mem_gb=4,
                          sample={"symbolic": "data bytes of every encode", "instances": "two shapes of " + BNAME[be], "destroy_order": "second first" if order2 == 0 else "first first"},
                          targets=["flat_xor_hd_init", "flat_xor_hd_exit", "flat_xor_hd_encode"] if be == XOR else ["liberasurecode_rs_vand_init", "liberasurecode_rs_vand_exit"] if be == RS else ["isa_l_common_init", "isa_l_exit"]))
    return {"obs": obs,
            "assumptions": ["registry harness: typed static instances, no heap; API harness: 12 (quick) / 16 (thorough) enumerated histories over 3 slots (2 RS instances sharing the GF tables + 1 flat-XOR), the first three under all 7 counter presets; arbitrary histories rest on the symbolic registry history and the inductive registry step",
                            "GF arithmetic contract-replaced; table life cycle is the real rs_galois_init/deinit_tables (fill loop shrunk, see gen_galois)"],
            "trusted": ENV_TRUST + GF_TRUST}
