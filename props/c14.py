from props.shapes import *

def plan(ctx):
    thorough = ctx.tier == "thorough"
    obs = []
    RU = ["erasurecode", "helpers", "preproc", "postproc", "crc32alt", "be_null", "be_xor", "be_isal_common", "be_isal_vand", "be_isal_cauchy", "be_rsvand",
          "galois_stubbed", "gf16_ref", "rsvand", "xor_code", "xor_hd_code", "null_code", "gf8", "env", "zcrc32"]
    for excl in (0, 1):
        depth = 5 if not thorough else 7
        defs = dict(DEPTH=depth)
        if excl: defs["EXCL_WRAP"] = None
        obs.append(Ob(id=f"registry-history-d{depth}" + ("-excl-wrap" if excl else ""), harness="c14.c", defs=defs, units=RU, unwind=8, unwindset={"liberasurecode_backend_alloc_desc.0": 8},
                      timeout=1800, mem_gb=8, sample={"symbolic": f"counter start value, {depth} x (operation, slot, lookup key)", "slots": 4, "excluded_input": "counter within reach of INT_MAX" if excl else None},
                      targets=["liberasurecode_backend_instance_register", "liberasurecode_backend_instance_unregister", "liberasurecode_backend_alloc_desc", "liberasurecode_backend_instance_get_by_desc"]))
        defs = dict(INDUCTIVE=None, DEPTH=1)
        if excl: defs["EXCL_WRAP"] = None
        obs.append(Ob(id="registry-inductive-step" + ("-excl-wrap" if excl else ""), harness="c14.c", defs=defs, units=RU, unwind=8, unwindset={"liberasurecode_backend_alloc_desc.0": 8},
                      timeout=1800, mem_gb=8, sample={"symbolic": "arbitrary well-formed registry over 4 slots (order, descriptors, counter) + one operation", "excluded_input": "counter within reach of INT_MAX" if excl else None},
                      targets=["liberasurecode_backend_instance_register", "liberasurecode_backend_instance_unregister", "liberasurecode_backend_alloc_desc", "liberasurecode_backend_instance_get_by_desc"]))
    presets = range(7)
    depth = 3 if not thorough else 5
    for p in presets:
        obs.append(Ob(id=f"api-history-d{depth}-preset{p}", harness="c14_api.c", defs=dict(DEPTH=depth, PRESET=p), units=RU, unwind=8,
                      unwindset={"liberasurecode_backend_alloc_desc.0": 8, "crc32.0": 84, "crc32.1": 84}, timeout=2400, mem_gb=12,
                      sample={"symbolic": f"{depth} x (operation in create/destroy/use/failed-create, slot), data bytes", "counter_preset": ["0", "1", "INT_MAX-2", "INT_MAX-1", "INT_MAX", "INT_MIN", "-1"][p]},
                      targets=["liberasurecode_instance_create", "liberasurecode_instance_destroy", "liberasurecode_encode", "rs_galois_init_tables", "rs_galois_deinit_tables"]))
    return {"obs": obs,
            "assumptions": ["registry harness: typed static instances, no heap; API harness: histories of depth 3 (quick) / 5 (thorough) over 3 slots; longer histories rest on the inductive registry step",
                            "GF arithmetic contract-replaced; table life cycle is the real rs_galois_init/deinit_tables (fill loop shrunk, see gen_galois)"],
            "trusted": ENV_TRUST + GF_TRUST}
