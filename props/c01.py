import random
from props.shapes import *
from props.c05 import l1_ob as xor_l1_ob
from props.xorsets import TABLES

def avail_orders(n, erased, variant):
    surv = [i for i in range(n) if i not in erased]
    if variant == "rev": return surv[::-1]
    if variant == "rot": return surv[1:] + surv[:1]
    if variant == "dup": return surv[::-1] + [surv[0]]
    return surv

def plan(ctx):
    rnd = random.Random(ctx.seed or 7)
    obs = []
    thorough = ctx.tier == "thorough"
    # ---- L2: public API, real back ends
    l2_shapes = [(RS, 2, 1, 1), (RS, 2, 2, 2), (ISAV, 2, 1, 1)] + ([(ISAC, 2, 1, 1), (RS, 3, 1, 1), (RS, 3, 2, 2), (ISAV, 2, 2, 2), (ISAV, 3, 2, 2)] if thorough else [])
    for be, k, m, hd in l2_shapes:
        n = k + m
        unit = k * WB[be]
        sets = list(esets(n, 0, m))
        for e in sets:
            variants = ["rev"] if not thorough else ["rev", "rot", "dup"]
            for v in variants:
                obs.append(l2_ob(be, k, m, hd, avail_orders(n, e, v), ln=unit + 1, force=0, ct=1))
        # other lengths, checksum type, forced checks, duplicates/surplus on one erasure set of maximal size
        emax = sets[-1] if not thorough else sets[len(sets) // 2]
        for ln in ([0, 1, unit, 2 * unit + 1] if not thorough else list(range(0, 2 * unit + 2))):
            obs.append(l2_ob(be, k, m, hd, avail_orders(n, emax, "rev"), ln=ln, tag="l2len"))
        obs.append(l2_ob(be, k, m, hd, avail_orders(n, emax, "dup"), ln=unit + 1, tag="l2dup"))
        # 16-byte-unaligned fragment buffers: every survivor unaligned / only the parities / only the data, for a data erasure and a parity erasure
        for e in ((0,), (n - 1,)):
            surv = avail_orders(n, e, "rev")
            par_mask = sum(1 << i for i, f in enumerate(surv) if f >= k)
            for ua in sorted({(1 << len(surv)) - 1, par_mask, ((1 << len(surv)) - 1) & ~par_mask} - {0}):
                obs.append(l2_ob(be, k, m, hd, surv, ln=unit + 1, unalign=ua, tag="l2unal"))
        obs.append(l2_ob(be, k, m, hd, list(range(n))[::-1] + [0], ln=unit + 1, tag="l2surplus"))
        obs.append(l2_ob(be, k, m, hd, avail_orders(n, emax, "rev"), ln=unit + 1, ct=2, force=1, tag="l2force"))
        obs.append(l2_ob(be, k, m, hd, avail_orders(n, (), "rot"), ln=unit + 1, ct=2, force=1, tag="l2force"))
        obs.append(l2_ob(be, k, m, hd, avail_orders(n, emax, "rev"), ln=unit + 1, ct=2, force=0, tag="l2ct2"))
    # ---- L1: back-end ops for larger shapes (split oracle above k=2)
    l1_shapes = [(RS, 3, 2, 2), (RS, 4, 2, 2)] + ([(ISAV, 3, 2, 2), (RS, 5, 3, 3), (ISAV, 4, 2, 2), (ISAC, 4, 3, 3), (RS, 6, 3, 3), (RS, 8, 4, 4), (RS, 10, 4, 4), (ISAV, 6, 3, 3), (ISAV, 10, 4, 4), (ISAC, 8, 4, 4)] if thorough else [])
    for be, k, m, hd in l1_shapes:
        n = k + m
        if thorough:
            sets = list(esets(n, 1, m))
            if len(sets) > 120:
                sets = [s for s in sets if len(s) == 1] + rnd.sample([s for s in sets if len(s) > 1], 100)
        else:
            # every set of one or two erasures + two sampled sets of maximal size (each set costs a decode plus one reconstruct per erased index)
            sets = list(esets(n, 1, 1)) + rnd.sample(list(esets(n, 2, 2)), 4)     # every single erasure + 4 sampled pairs (the exhaustive k-subset sweep of these shapes is C04 mds-*)
            if m > 2:
                sets += rnd.sample(list(esets(n, m, m)), min(2, len(list(esets(n, m, m)))))
        for i, ch in enumerate(chunks(sets, 1)):
            obs.append(be_l1_ob(be, k, m, hd, ch, idx=i, timeout=1500, mem=(12 if k >= 8 else 4)))
    if not thorough:
        obs.append(be_l1_ob(RS, 10, 4, 4, [(13,)], idx=0, timeout=1500, mem=16))
    # ---- L1: flat-XOR through the adapter ops (table sweep itself is C05)
    for (k, m, hd) in ([(3, 3, 3), (5, 5, 4)] if not thorough else TABLES[::4]):
        n = k + m
        sets = list(esets(n, 1, hd - 1))
        if len(sets) > 64:
            sets = rnd.sample(sets, 64)
        for i, ch in enumerate(chunks(sets, 16)):
            obs.append(be_l1_ob(XOR, k, m, hd, ch, idx=i))
    # flat-XOR: every three-data erasure of one hd=4 table (the P^Q scratch-buffer path is taken by a few triples only)
    import itertools
    for (k, m, hd) in [(6, 5, 4)] + ([(6, 6, 4), (10, 5, 4)] if thorough else []):
        for i, ch in enumerate(chunks(list(itertools.combinations(range(k), 3)), 10)):
            obs.append(xor_l1_ob(k, m, hd, ch, b=4, tag="xor3data", idx=i))
    return {"obs": obs,
            "assumptions": ["L2: fragments come from the independent serializer (encode side is C07); input length enumerated, content symbolic",
                            "unaligned fragment buffers: offset-1 pointers into one-byte-larger objects (all survivors / parities only / data only); CBMC treats fresh objects as aligned",
                            "L1 shapes with k>2 use the split oracle (D6): free symbolic survivors vs model linear algebra whose inverse is checked concretely",
                            "flat-XOR at the public API is outside reach (no verdict in 400 s for (3,3,3)); it is covered at the back-end op interface plus the shared front-end glue on RS/ISA-L shapes",
                            "payload: 1 word per fragment at L1; <= 2 blocks at L2"],
            "trusted": ENV_TRUST + GF_TRUST + ISAL_TRUST + ZCRC_TRUST + ["model/ref_format.c (oracle and fragment source)"]}
