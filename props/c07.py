from props.common import *

RS = 6; XOR = 3; ISAV = 4; ISAC = 7; NULL = 0
WB = {RS: 2, XOR: 4, ISAV: 1, ISAC: 1, NULL: 4}

def enc_ob(be, k, m, hd, ct, ln, legacy=False, tag="enc", big=False):
    defs = dict(BE=be, K=k, M=m, HD=hd, CT=ct, LEN=ln)
    unit = k * WB[be]
    nblk = (ln + unit - 1) // unit
    if legacy is not False:
        defs["LEGACY"] = int(legacy)
        defs["UFCRC"] = None
    size = nblk * WB[be]
    name = {RS: "rs", XOR: "xor", ISAV: "isalv", ISAC: "isalc", NULL: "null"}[be]
    return Ob(id=f"{tag}-{name}{k}_{m}_{hd}-ct{ct}-len{ln}" + (f"-env{int(legacy)}" if legacy is not False else ""), harness="c07.c", defs=defs,
              units=(uf_units() if legacy is not False else real_crc_units()) + ["ref_format", "xor_eq"], unwind=max(84, k + m + 3, size + 3),
              timeout=900, mem_gb=8 if not big else 16,
              sample={"symbolic": f"{ln} data bytes" + (f", env case {int(legacy)}" if legacy is not False else ""), "len": ln,
                      "shape": [name, k, m, hd], "ct": ct, "bound_payload_bytes_per_fragment": size},
              targets=["liberasurecode_encode", "prepare_fragments_for_encode", "finalize_fragments_after_encode", "add_fragment_metadata",
                       "set_checksum", "liberasurecode_get_fragment_size", "liberasurecode_get_aligned_data_size", "liberasurecode_encode_cleanup"])

def shapes(tier):
    s = [(RS, 1, 1, 1), (RS, 2, 1, 1), (RS, 2, 2, 2), (RS, 3, 2, 2), (RS, 4, 2, 2), (XOR, 3, 3, 3), (ISAV, 2, 1, 1), (ISAC, 2, 2, 2), (NULL, 2, 1, 1)]
    if tier == "thorough":
        s += [(RS, 1, 2, 2), (RS, 3, 1, 1), (RS, 5, 3, 3), (RS, 10, 4, 4), (XOR, 5, 5, 3), (XOR, 6, 6, 4), (XOR, 10, 5, 3), (ISAV, 4, 2, 2), (ISAC, 4, 2, 2), (ISAV, 10, 4, 4)]
    return s

def writer_obs(ctx, for_c10=False):
    obs = []
    if for_c10:
        for be, k, m, hd in ((RS, 2, 1, 1), (XOR, 3, 3, 3), (ISAV, 2, 1, 1)):
            for ln in (1, k * WB[be] + 1):
                for case in (range(8) if (be == RS or ctx.tier == "thorough") else (0, 2, 3)):
                    if ln != 1 and case not in (0, 3) and ctx.tier == "quick":
                        continue
                    obs.append(enc_ob(be, k, m, hd, 2, ln, legacy=case, tag="writer"))
        return obs
    for be, k, m, hd in shapes(ctx.tier):
        for ct in (1, 2):
            unit = k * WB[be]
            lens = sorted({0, 1, unit - 1, unit, unit + 1, 2 * unit}) if ctx.tier == "quick" else list(range(0, 3 * unit + 1))
            if ct == 1:
                lens = [l for l in lens if l in (1, unit + 1)] if ctx.tier == "quick" else lens[::2]
            if k + m > 8 and ctx.tier == "thorough":
                lens = sorted({0, 1, unit - 1, unit, unit + 1, 2 * unit})
            for ln in lens:
                if ln < 0: continue
                obs.append(enc_ob(be, k, m, hd, ct, ln, big=(k + m > 8)))
    return obs

def plan(ctx):
    return {"obs": writer_obs(ctx),
            "assumptions": ["zlib crc32 replaced by model/zcrc32.c", "input length enumerated by the driver (quick: 0,1,unit-1,unit,unit+1,2*unit; thorough: every length 0..3*unit), content symbolic",
                            "lengths beyond 3*k*w bytes are outside the claim"],
            "trusted": ENV_TRUST + ZCRC_TRUST + GF_TRUST + ISAL_TRUST + ["model/ref_format.c + model/xor_eq.c: the reference serializer (oracle)"]}
