from props.common import *
from props.c07 import enc_ob, RS, XOR, ISAV, ISAC, NULL, WB

def plan(ctx):
    obs = []
    ks = {RS: [1, 2, 3, 5, 7], XOR: [(3, 3, 3), (10, 5, 3), (6, 6, 4), (20, 6, 4)], ISAV: [1, 3, 31], ISAC: [2, 11]}
    if ctx.tier == "thorough":
        ks[RS] = list(range(1, 13)) + [16]; ks[ISAV] = list(range(1, 32)); ks[ISAC] = list(range(1, 32))
        ks[XOR] = [(k, 6, 3) for k in range(6, 16)] + [(k, 5, 3) for k in range(5, 11)] + [(3, 3, 3)] + [(k, 6, 4) for k in range(6, 21)] + [(k, 5, 4) for k in range(5, 11)]
    for be, lst in ks.items():
        for e in lst:
            k, m, hd = e if isinstance(e, tuple) else (e, 1, 1)
            name = {RS: "rs", XOR: "xor", ISAV: "isalv", ISAC: "isalc"}[be]
            obs.append(Ob(id=f"sizes-{name}{k}_{m}_{hd}", harness="c08.c", defs=dict(BE=be, K=k, M=m, HD=hd), unwind=max(12, k + m + 3),
                          unwindset={"ec_init_tables.0": 40, "ec_init_tables.1": 40, "ec_init_tables.2": 40},
                          timeout=600, mem_gb=6, sample={"symbolic": "data_len in [0, 2^20], unknown descriptor value", "shape": [name, k, m, hd], "bound_len": 1 << 20},
                          targets=["liberasurecode_get_aligned_data_size", "liberasurecode_get_minimum_encode_size", "liberasurecode_get_fragment_size", "get_aligned_data_size"]))
    # link to what encode actually produces: a few enumerated lengths through the C07 harness (it asserts the size queries too)
    for be, k, m, hd in ((RS, 3, 2, 2), (XOR, 3, 3, 3), (ISAV, 2, 1, 1)):
        unit = k * WB[be]
        for ln in (0, 1, unit, unit + 1):
            obs.append(enc_ob(be, k, m, hd, 1, ln, tag="encsize"))
    return {"obs": obs, "assumptions": ["data_len <= 2^20 (the statement's range); the link to encode's fragment_len is asserted in the C07 harness for enumerated lengths"],
            "trusted": ENV_TRUST + GF_TRUST + ISAL_TRUST}
