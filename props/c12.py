from props.common import *

INST = [("null", dict(BE=0, K=2, M=1)), ("xor333", dict(BE=3, K=3, M=3, HD=3)), ("rs21", dict(BE=6, K=2, M=1)),
        ("rs42", dict(BE=6, K=4, M=2)), ("isal21", dict(BE=4, K=2, M=1)), ("cauchy22", dict(BE=7, K=2, M=2))]

def plan(ctx):
    obs = []
    insts = INST if ctx.tier == "thorough" else [INST[1], INST[2], INST[4], INST[0]]
    for name, d in insts:
        for mode, api in ((1, "is_invalid_fragment"), (2, "liberasurecode_verify_stripe_metadata")):
            for excl in (0,):
                defs = dict(d, MODE=mode)
                if excl:
                    defs["EXCL_IDX_EQ_N"] = None
                obs.append(Ob(id=f"{api}-{name}" + ("-excl" if excl else ""), harness="c12.c", defs=defs, units=uf_units(),
                              unwind=10, unwindset={"main.0": 90, "main.1": 90, "main.2": 90, "make_systematic_matrix.0": 40},
                              timeout=600, mem_gb=6,
                              sample={"symbolic": "84 fragment bytes + 4 checksum values" if mode == 1 else "1..3 x 59 metadata bytes, count", "instance": name,
                                      "excluded_input": "idx == k+m (listed/fixed finding)" if excl else None},
                              targets=[api, "is_invalid_fragment_metadata", "liberasurecode_verify_fragment_metadata", "liberasurecode_get_fragment_metadata"]))
    return {"obs": obs,
            "assumptions": ["CRCs uninterpreted (all checksum values)", "mode 1: stored mismatch byte is 0 unless chksum_type == CRC32 (outside the statement otherwise)",
                            "mode 2: stored mismatch byte in {0,1}"],
            "trusted": ENV_TRUST + UF_TRUST + GF_TRUST + ISAL_TRUST}
