from props.common import *

def plan(ctx):
    obs = []
    T = ["is_invalid_fragment_header", "liberasurecode_get_fragment_metadata", "liberasurecode_decode", "liberasurecode_reconstruct_fragment"]
    for mode, subs in ((1, (0,)), (2, (0,)), (3, (0, 1)), (4, (0, 1))):
        for sub in subs:
            obs.append(Ob(id=f"hdr-mode{mode}-sub{sub}", harness="c09.c", defs={"MODE": mode, "SUB": sub}, units=uf_units(),
                          unwind=(90 if mode < 3 else 4), unwindset=({} if mode < 3 else dict({f"main.{i}": 90 for i in range(8)})), timeout=600, mem_gb=8,
                          sample={"symbolic": "82 fragment bytes (80 header + 2 payload), v_std, v_alt (2^720 cases)",
                                  "bound_payload": 2, "api": T[mode - 1]},
                          targets=[T[mode - 1], "is_invalid_fragment_header"]))
    return {"obs": obs,
            "assumptions": ["CRCs are uninterpreted: the solver ranges over all headers and all possible checksum values",
                            "modes 3/4: instance of the null back end (k=1,m=1; real front end, back-end ops are no-ops), one fragment; SUB=1 assumes idx=0,size=2,orig<=2"],
            "trusted": ENV_TRUST + UF_TRUST + GF_TRUST}
