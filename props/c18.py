from props.shapes import *
SC = {1: "encode(shared) || encode(shared)", 2: "encode(shared) || destroy(own instance listed before it)", 3: "first-ever create RS || create RS",
      4: "create XOR || create XOR", 5: "encode(shared RS) || create+destroy own RS", 6: "destroy own RS || encode(shared RS)", 7: "destroy own || destroy own (third instance stays)"}
YIELDS = {1: [0, 1, 2, 6, 99], 2: [0, 1, 2, 6, 99], 3: [0, 1, 2, 5, 7, 10, 11, 12, 99], 4: [0, 1, 2, 5, 7, 99], 5: [0, 1, 2, 6, 99], 6: [0, 1, 2, 3, 4, 8, 13, 14, 99], 7: [0, 1, 2, 3, 4, 8, 99]}
def plan(ctx):
    obs = []
    U = real_crc_units()
    for sc in sorted(SC):
        for y in YIELDS[sc]:
            for occ in ((1,) if y in (0, 99) else ((1, 2) if ctx.tier == "quick" else (1, 2, 3))):
                blocked = (sc in (3, 4) and y in (1, 2, 7)) or (sc == 7 and y == 8)    # inside A's critical section: B is blocked on the unchanged tree (vacuous query, no witness required)
                obs.append(Ob(id=f"sched-scen{sc}-y{y}-occ{occ}", harness="c18.c", defs=dict(SCEN=sc, YIELD=y, OCC=occ), units=U, unwind=8, need_witness=not blocked,
                              unwindset={"crc32.0": 84, "crc32.1": 84, "liberasurecode_backend_alloc_desc.0": 8}, timeout=1200, mem_gb=4,
                              sample={"symbolic": "2x4 data bytes", "scenario": SC[sc], "preemption": f"B runs when A reaches yield point {y} for the {occ}. time (0: before A, 99: after A)"},
                              targets=["liberasurecode_backend_instance_get_by_desc", "liberasurecode_backend_instance_register", "liberasurecode_backend_instance_unregister",
                                       "liberasurecode_instance_create", "liberasurecode_instance_destroy", "liberasurecode_encode", "rs_galois_init_tables", "rs_galois_deinit_tables"]))
    return {"obs": obs,
            "assumptions": ["context-bounded under-approximation: 2 threads, one operation each, ONE pre-emption of A by a complete operation of B at an instrumented yield point (8 points in erasurecode.c, 5 in rs_galois.c), at its 1st or 2nd (thorough: 3rd) occurrence; other schedules, more threads and finer-grained interleavings are outside the claim",
                            "CBMC's own thread support rejects this code base ('pointer handling for concurrency is unsound'), hence the hook-based sequentialisation",
                            "a B that needs the registry write lock while A holds it is blocked (schedule infeasible): for create||create the yield points 1, 2 and 7 lie inside A's critical section, so those obligations would be vacuous and are not generated"],
            "trusted": ENV_TRUST + GF_TRUST + ["yield hooks in /repo (guard LIBERASURECODE_VERIF)"]}
