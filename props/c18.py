from props.shapes import *
SC = {1: "encode(shared) || encode(shared)", 2: "encode(shared) || destroy(own instance listed before it)", 3: "first-ever create RS || create RS",
      4: "create XOR || create XOR", 5: "encode(shared RS) || create+destroy own RS", 6: "destroy own RS || encode(shared RS)"}
# yield points at which the listed findings manifest (see known_findings.txt); the -excl twin assumes them away and must be fully discharged
EXCL = {2: "2", 3: "10,11,12"}
def plan(ctx):
    obs = []
    U = real_crc_units()
    for sc in sorted(SC):
        for excl in ((0, 1) if sc in EXCL else (0,)):
            defs = dict(SCEN=sc)
            if excl: defs["EXCL_YIELDS"] = EXCL[sc]
            obs.append(Ob(id=f"sched-scen{sc}" + ("-excl" if excl else ""), harness="c18.c", defs=defs, units=U, unwind=8, unwindset={"crc32.0": 84, "crc32.1": 84, "liberasurecode_backend_alloc_desc.0": 8},
                          timeout=1800, mem_gb=8,
                          sample={"symbolic": "pre-emption point (yield id 0..99), 2x4 data bytes", "scenario": SC[sc], "excluded_yield_points": EXCL[sc] if excl else None},
                          targets=["liberasurecode_backend_instance_get_by_desc", "liberasurecode_backend_instance_register", "liberasurecode_backend_instance_unregister",
                                   "liberasurecode_instance_create", "liberasurecode_instance_destroy", "liberasurecode_encode", "rs_galois_init_tables", "rs_galois_deinit_tables"]))
    return {"obs": obs,
            "assumptions": ["context-bounded under-approximation: 2 threads, one operation each, ONE pre-emption of A by a complete operation of B at an instrumented yield point (8 points in erasurecode.c, 5 in rs_galois.c); other schedules, more threads and finer-grained interleavings are outside the claim",
                            "CBMC's own thread support rejects this code base ('pointer handling for concurrency is unsound'), hence the hook-based sequentialisation",
                            "a B that needs the registry write lock while A holds it is blocked (schedule infeasible)"],
            "trusted": ENV_TRUST + GF_TRUST + ["yield hooks in /repo (guard LIBERASURECODE_VERIF)"]}
