from props.shapes import *

def plan(ctx):
    thorough = ctx.tier == "thorough"
    obs = []
    U = real_crc_units() + ["ref_format", "xor_eq"]
    names = {2: "encode", 3: "decode", 4: "reconstruct", 5: "fragments_needed", 6: "metadata-validation-cleanup-queries", 7: "cleanup-halves"}
    inst = [(RS, 2, 1, 1)] + ([(XOR, 3, 3, 3), (ISAV, 2, 1, 1)] if thorough else [])
    INT_MAX = 2147483647
    for be, k, m, hd in inst:
        n = k + m
        variants = []
        for mode in (2, 5, 6, 7):
            variants.append((mode, {}, ""))
        for var in (0, 1, 2):
            variants.append((3, {"VAR": var}, f"-var{var}"))
        for var in (0, 1):
            variants.append((4, {"VAR": var}, f"-var{var}"))
        for dv in (-1, n, n + 1, INT_MAX, -INT_MAX - 1):
            variants.append((4, {"VAR": 3, "DESTV": f"({dv})"}, f"-dest{dv}"))
        for mode, extra, suffix in variants:
            if be == XOR and mode in (3, 4):
                continue      # flat-XOR through public decode/reconstruct: no verdict within the caps (DESIGN 10.2)
            defs = dict(BE=be, K=k, M=m, HD=hd, MODE=mode, **extra)
            obs.append(Ob(id=f"args-{names[mode]}-{BNAME[be]}{k}_{m}{suffix}", harness="c13.c", defs=defs, units=U, unwind=max(8, k + m + 3),
                          unwindset=dict({f"main.{i}": 90 for i in range(12)}, **{"ref_header.0": 84, "crc_run.0": 84, "crc_run.1": 84, "crc32.0": 84, "crc32.1": 84}),
                          flags=["--memory-leak-check"], timeout=1200, mem_gb=6,
                          sample={"symbolic": "descriptor (live/unknown), pointer arguments (valid/NULL), count or length", "api": names[mode], "instance": [BNAME[be], k, m], "variant": extra},
                          targets=["liberasurecode_" + names[mode]] if mode < 6 else ["liberasurecode_encode_cleanup", "liberasurecode_decode_cleanup"] if mode == 7 else ["liberasurecode_get_fragment_metadata", "liberasurecode_verify_stripe_metadata", "is_invalid_fragment",
                                   "liberasurecode_encode_cleanup", "liberasurecode_decode_cleanup", "liberasurecode_instance_destroy", "liberasurecode_backend_available"]))
    # enumerated boundary shapes for the matrix-based back ends: refused or survives a full cycle
    refused = [(RS, 0, 1), (RS, -1, 2), (RS, 1, -1), (RS, 32, 1), (RS, 1, 32), (RS, 0, 0), (RS, 17, 16), (ISAV, 0, 2), (ISAV, 30, 3), (ISAC, -1, 1), (ISAC, 0, 0), (XOR, 0, 3), (XOR, 4, 3), (XOR, 2, 3), (XOR, 16, 6), (XOR, 5, 6), (XOR, 11, 5), (XOR, 4, 5), (XOR, 3, 3, 4), (XOR, 21, 6, 4), (XOR, 5, 6, 4), (XOR, 11, 5, 4), (XOR, 4, 5, 4), (XOR, 5, 5, 2), (XOR, 6, 4), (NULL, 0, 1), (NULL, -1, 1), (NULL, 20, 13)]
    for ent in refused:
        be, k, m = ent[:3]
        hd = ent[3] if len(ent) > 3 else (3 if be == XOR else max(m, 0))
        obs.append(Ob(id=f"refuse-{BNAME[be]}{k}_{m}_{hd}", harness="c13_cycle.c", defs=dict(BE=be, K=k, M=m, HD=hd, EXPECT_REFUSED=None), units=U, unwind=8,
                      flags=["--memory-leak-check"], timeout=900, mem_gb=6, sample={"shape": [BNAME[be], k, m], "expect": "refused"}, targets=["liberasurecode_instance_create"]))
    accepted = [(RS, 1, 1, 1), (RS, 1, 0, 0), (RS, 3, 2, 2), (ISAV, 1, 0, 0), (ISAV, 5, 3, 3), (ISAC, 1, 1, 1), (XOR, 3, 3, 3), (XOR, 5, 5, 4), (ISAV, 28, 4, 4), (ISAC, 31, 1, 1)] + \
               ([(RS, 10, 4, 4), (RS, 1, 31, 31), (XOR, 20, 6, 4), (XOR, 15, 6, 3), (ISAV, 16, 16, 16), (ISAV, 1, 31, 31)] if thorough else [])
    for be, k, m, hd in accepted:
        obs.append(Ob(id=f"cycle-{BNAME[be]}{k}_{m}_{hd}", harness="c13_cycle.c", defs=dict(BE=be, K=k, M=m, HD=hd, LEN=3), units=U, unwind=max(8, k + m + 3),
                      unwindset={"ec_init_tables.0": 40, "ec_init_tables.1": 40, "ec_init_tables.2": 40, "crc32.0": 84, "crc32.1": 84},
                      flags=["--memory-leak-check"] + (["--max-field-sensitivity-array-size", "1100"] if k * (k + m) > 200 else []), timeout=1800, mem_gb=12 if k + m > 12 else 6,
                      sample={"shape": [BNAME[be], k, m, hd], "symbolic": "3 data bytes", "expect": "accepted and usable"},
                      targets=["liberasurecode_instance_create", "liberasurecode_encode", "liberasurecode_decode", "liberasurecode_instance_destroy"]))
    return {"obs": obs,
            "assumptions": ["allocation failure is out of scope (--no-malloc-may-fail)", "decode: fragment_len is either < 80 or the true length; num_fragments <= the number of fragments actually supplied",
                            "decode/reconstruct: one category of invalid argument per query (descriptor/pointer combinations symbolic together; count; length; destination), the remaining arguments valid and concrete",
                            "reconstruct with a fragment length below 80 is executed for memory safety but its return code is not judged (the function has no length check; the copy is bounded by the given length)",
                            "instance_create: boundary and unsupported shapes are enumerated (a symbolic (k,m,hd) through the public create ran out of memory at 16 GB); the whole unsupported (k,m,hd) box for flat-XOR is decided at init_xor_hd_code level in C05"],
            "trusted": ENV_TRUST + GF_TRUST + ISAL_TRUST + ZCRC_TRUST}
