from props.shapes import *

def plan(ctx):
    thorough = ctx.tier == "thorough"
    obs = []
    U = real_crc_units() + ["ref_format", "xor_eq"]
    names = {2: "encode", 3: "decode", 4: "reconstruct", 5: "fragments_needed", 6: "metadata-validation-cleanup-queries"}
    inst = [(RS, 2, 1, 1)] + ([(XOR, 3, 3, 3), (ISAV, 2, 1, 1)] if thorough else [])
    for be, k, m, hd in inst:
        for mode in (2, 3, 4, 5, 6):
            for excl in ((0, 1) if mode == 4 else (0,)):
                defs = dict(BE=be, K=k, M=m, HD=hd, MODE=mode)
                if excl: defs["EXCL_DEST"] = None
                obs.append(Ob(id=f"args-{names[mode]}-{BNAME[be]}{k}_{m}" + ("-excl-dest" if excl else ""), harness="c13.c", defs=defs, units=U, unwind=max(8, k + m + 3),
                              unwindset=dict({f"main.{i}": 90 for i in range(12)}, **{"ref_header.0": 84, "crc_run.0": 84, "crc_run.1": 84, "crc32.0": 84, "crc32.1": 84}),
                              flags=["--memory-leak-check"], timeout=1200, mem_gb=6,
                              sample={"symbolic": "descriptor (live/unknown), every pointer argument (valid/NULL), counts, lengths, destination", "api": names[mode], "instance": [BNAME[be], k, m],
                                      "excluded_input": "destination outside 0..k+m-1 (listed finding)" if excl else None},
                              targets=["liberasurecode_" + names[mode]] if mode < 6 else ["liberasurecode_get_fragment_metadata", "liberasurecode_verify_stripe_metadata", "is_invalid_fragment",
                                       "liberasurecode_encode_cleanup", "liberasurecode_decode_cleanup", "liberasurecode_instance_destroy", "liberasurecode_backend_available"]))
    # create with a symbolic shape box (back ends whose init is cheap for a symbolic shape)
    for be, nm in ((XOR, "xor"), (NULL, "null")):
        obs.append(Ob(id=f"create-box-{nm}", harness="c13.c", defs=dict(BE=be, K=3, M=3, HD=3, MODE=1, FIXED_ID=None), units=U, unwind=8, flags=["--memory-leak-check"], timeout=1200, mem_gb=6,
                      sample={"symbolic": "(k,m) in [-1,33]^2, hd in [0,7], args pointer valid/NULL, id in {this back end, absent back ends, ids >= EC_BACKENDS_MAX}"},
                      targets=["liberasurecode_instance_create", "init_xor_hd_code" if be == XOR else "null_init"]))
    # enumerated boundary shapes for the matrix-based back ends: refused or survives a full cycle
    refused = [(RS, 0, 1), (RS, -1, 2), (RS, 1, -1), (RS, 32, 1), (RS, 1, 32), (RS, 0, 0), (ISAV, 0, 2), (ISAV, 30, 3), (ISAC, -1, 1), (XOR, 0, 3), (XOR, 4, 3), (NULL, 0, 1)]
    for be, k, m in refused:
        obs.append(Ob(id=f"refuse-{BNAME[be]}{k}_{m}", harness="c13_cycle.c", defs=dict(BE=be, K=k, M=m, HD=(3 if be == XOR else max(m, 0)), EXPECT_REFUSED=None), units=U, unwind=8,
                      flags=["--memory-leak-check"], timeout=900, mem_gb=6, sample={"shape": [BNAME[be], k, m], "expect": "refused"}, targets=["liberasurecode_instance_create"]))
    accepted = [(RS, 1, 1, 1), (RS, 1, 0, 0), (RS, 3, 2, 2), (ISAV, 1, 0, 0), (ISAV, 5, 3, 3), (ISAC, 1, 1, 1), (XOR, 3, 3, 3), (XOR, 5, 5, 4), (ISAV, 28, 4, 4), (ISAC, 31, 1, 1)] + \
               ([(RS, 10, 4, 4), (RS, 31, 1, 1), (RS, 1, 31, 31), (XOR, 20, 6, 4), (XOR, 15, 6, 3), (ISAV, 16, 16, 16), (ISAV, 1, 31, 31)] if thorough else [])
    for be, k, m, hd in accepted:
        obs.append(Ob(id=f"cycle-{BNAME[be]}{k}_{m}_{hd}", harness="c13_cycle.c", defs=dict(BE=be, K=k, M=m, HD=hd, LEN=3), units=U, unwind=max(8, k + m + 3),
                      unwindset={"ec_init_tables.0": 40, "ec_init_tables.1": 40, "ec_init_tables.2": 40, "crc32.0": 84, "crc32.1": 84},
                      flags=["--memory-leak-check"] + (["--max-field-sensitivity-array-size", "1100"] if k * (k + m) > 200 else []), timeout=1800, mem_gb=12 if k + m > 12 else 6,
                      sample={"shape": [BNAME[be], k, m, hd], "symbolic": "3 data bytes", "expect": "accepted and usable"},
                      targets=["liberasurecode_instance_create", "liberasurecode_encode", "liberasurecode_decode", "liberasurecode_instance_destroy"]))
    return {"obs": obs,
            "assumptions": ["allocation failure is out of scope (--no-malloc-may-fail)", "decode: fragment_len is either < 80 or the true length; num_fragments <= the number of fragments actually supplied",
                            "reconstruct with a length below 80 and fragments present is not judged (the function has no length parameter check and the statement lists it only for decode-like length use)",
                            "matrix-based back ends: boundary shapes are enumerated (a symbolic k makes the matrix construction unbounded for symbolic execution)"],
            "trusted": ENV_TRUST + GF_TRUST + ISAL_TRUST + ZCRC_TRUST}
