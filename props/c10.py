import os, random, subprocess
from props.common import *
from vlib import core

def native_zcrc(ctx):
    """stub validation: model/zcrc32.c == installed libz crc32 on the repo's golden headers and random buffers"""
    src = os.path.join(ctx.work, "zv.c")
    open(src, "w").write(r'''
#include <stdio.h>
#include <stdlib.h>
#include <stdint.h>
#include <zlib.h>
unsigned long m_crc32(unsigned long, const unsigned char*, unsigned int);
int liberasurecode_crc32_alt(int crc, const void *buf, size_t size);
uint32_t ref_crc32(const uint8_t *p, size_t n); uint32_t ref_crc32_legacy(const uint8_t *p, size_t n);
int main(int c, char **v){ unsigned seed=atoi(v[1]); int n=atoi(v[2]); srand(seed); unsigned char b[300]; long cmp=0;
 for(int t=0;t<n;t++){ int len=rand()%300; for(int i=0;i<len;i++) b[i]=rand(); if (t%3==0) for(int i=0;i<len;i++) b[i]&=0x7f;
   if(crc32(0,b,len)!=m_crc32(0,b,len)){printf("MISMATCH len=%d seed=%u t=%d\n",len,seed,t);return 1;}
   /* reference serializer's CRCs: standard == libz, historical == the repo's crc32_alt */
   if (ref_crc32(b,len)!=crc32(0,b,len)){printf("REF-STD-MISMATCH t=%d\n",t);return 1;}
   if (ref_crc32_legacy(b,len)!=(uint32_t)liberasurecode_crc32_alt(0,b,len)){printf("REF-LEGACY-MISMATCH t=%d\n",t);return 1;}
   cmp++; }
 printf("compared=%ld\n",cmp); return 0; }
''')
    exe = os.path.join(ctx.work, "zv")
    rc, o, e, to, _ = core.run(["gcc", "-O1", "-DZCRC_NAME=m_crc32", src, os.path.join(core.VERIF, "model/zcrc32.c"),
                                os.path.join(core.REPO, "src/utils/chksum/crc32.c"), os.path.join(core.VERIF, "model/ref_format.c"),
                                os.path.join(core.VERIF, "model/xor_eq.c"), "-I", os.path.join(core.VERIF, "model"), "-o", exe, "-lz"], timeout=120)
    if rc != 0:
        return False, "zcrc32 validation build failed: " + e[-500:], ""
    n = 100000 if ctx.tier == "quick" else 1000000
    rc, o, e, to, _ = core.run([exe, str(ctx.seed or 1), str(n)], timeout=600)
    return rc == 0, f"model/zcrc32.c and ref_format CRCs vs libz crc32 / repo crc32_alt on {n} random buffers (seed {ctx.seed or 1}): {o.strip()}", ""

def plan(ctx):
    obs = []
    # (iii) historical CRC == bitwise model
    obs.append(Ob(id="crc32_alt-step", harness="c10_crc.c", defs={"MODE": 1}, units=["crc32alt", "env"], unwind=10, timeout=300, mem_gb=4,
                  sample={"symbolic": "32-bit state x 1 byte (2^40 cases): inductive step"}, targets=["liberasurecode_crc32_alt"]))
    nb = 4 if ctx.tier == "quick" else 6
    obs.append(Ob(id=f"crc32_alt-buf{nb}", harness="c10_crc.c", defs={"MODE": 2, "NB": nb}, units=["crc32alt", "env"], unwind=10, timeout=900, mem_gb=4,
                  sample={"symbolic": f"length 0..{nb} and {nb} bytes", "bound_bytes": nb}, targets=["liberasurecode_crc32_alt"]))
    # (ii) verifier
    for name, d in (("rs21", dict(BE=6, K=2, M=1)), ("xor333", dict(BE=3, K=3, M=3, HD=3))):
        obs.append(Ob(id=f"verify-{name}", harness="c12.c", defs=dict(d, MODE=3), units=uf_units(), unwind=10,
                      unwindset={"main.0": 90, "main.1": 90, "main.2": 90, "make_systematic_matrix.0": 40}, timeout=600, mem_gb=6,
                      sample={"symbolic": "84 fragment bytes + 4 checksum values (CRCs uninterpreted)", "instance": name},
                      targets=["liberasurecode_get_fragment_metadata", "is_invalid_fragment"]))
    # (i) writer: encode / reconstruct store the CRC-32 of the payload; legacy switch (shared harness with C07/C03)
    from props.c07 import writer_obs
    obs += writer_obs(ctx, for_c10=True)
    # ... and reconstruct: the rebuilt fragment (header incl. checksum type, payload CRC, metadata CRC) equals the reference serializer's
    from props.shapes import l2_ob, RS, XOR, ISAV
    for be, k, m, hd, surv, dest in ((RS, 2, 1, 1, [2, 1], 0), (RS, 2, 1, 1, [0, 1], 2), (RS, 2, 2, 2, [3, 0], 1), (ISAV, 2, 1, 1, [0, 2], 1)):
        obs.append(l2_ob(be, k, m, hd, surv, mode=2, dest=dest, ct=2, tag="writer-reconstruct"))
    return {"obs": obs, "native": [native_zcrc],
            "assumptions": ["verifier harness: CRCs uninterpreted, host byte order (opposite order is C11)",
                            "writer harnesses: zlib crc32 replaced by model/zcrc32.c (validated natively against libz on every run)"],
            "trusted": ENV_TRUST + UF_TRUST + ZCRC_TRUST + GF_TRUST}
