from props.shapes import *
NAMES = {1: "init", 2: "encode", 3: "decode", 4: "reconstruct", 5: "fragments_needed", 6: "isal-inversion"}
def plan(ctx):
    thorough = ctx.tier == "thorough"
    obs = []
    U = real_crc_units() + ["ref_format", "xor_eq"]
    combos = [(RS, 2, 1, 1, op) for op in (1, 2, 3, 4, 5)] + [(ISAV, 2, 1, 1, 6), (XOR, 3, 3, 3, 1), (XOR, 3, 3, 3, 2), (XOR, 3, 3, 3, 5)]
    if thorough:
        combos += [(RS, 2, 2, 2, op) for op in (2, 3, 4)] + [(ISAV, 2, 1, 1, op) for op in (1, 2, 3, 4)]
    for be, k, m, hd, op in combos:
        obs.append(Ob(id=f"fail-{NAMES[op]}-{BNAME[be]}{k}_{m}", harness="c17.c", defs=dict(BE=be, K=k, M=m, HD=hd, OP=op, CT=1), units=U, unwind=max(8, k + m + 3),
                      unwindset=dict({f"main.{i}": 100 for i in range(12)}, **{"ref_header.0": 84, "crc_run.0": 84, "crc_run.1": 84, "crc32.0": 84, "crc32.1": 84,
                                                                                 "ec_init_tables.0": 40, "ec_init_tables.1": 40, "ec_init_tables.2": 40}),
                      flags=["--memory-leak-check"], timeout=1500, mem_gb=6,
                      sample={"symbolic": "3 data bytes, whether the first call's back-end operation fails", "op": NAMES[op], "shape": [BNAME[be], k, m, hd]},
                      targets=["liberasurecode_instance_create" if op == 1 else "liberasurecode_" + {2: "encode", 3: "decode", 4: "reconstruct_fragment", 5: "fragments_needed", 6: "decode"}[op]]))
    return {"obs": obs,
            "assumptions": ["failing ops are installed through the exported instance lookup (init: through the back end's shared descriptor for one create)",
                            "two calls per query: the first fails iff a symbolic flag is set, the second runs with the real ops and must behave normally; no caller-side cleanup after a failure; CBMC --memory-leak-check",
                            "isal-inversion: the clean-room gf_invert_matrix returns -1 (real failure path of the adapter)"],
            "trusted": ENV_TRUST + GF_TRUST + ISAL_TRUST + ZCRC_TRUST}
