import copy
from props.shapes import *
from props.c07 import enc_ob
from props.c05 import l1_ob as xor_l1_ob
from props.xorsets import chunks

def leak(ob, tag):
    ob = copy.deepcopy(ob)
    ob.id = tag + "-" + ob.id
    ob.flags = list(ob.flags) + ["--memory-leak-check"]
    return ob

def plan(ctx):
    thorough = ctx.tier == "thorough"
    obs = []
    # success paths followed by their cleanup calls
    for be, k, m, hd in [(RS, 2, 1, 1), (XOR, 3, 3, 3), (ISAV, 2, 1, 1)] + ([(RS, 2, 2, 2), (RS, 3, 2, 2)] if thorough else []):
        unit = k * WB[be]
        obs.append(leak(enc_ob(be, k, m, hd, 2, unit + 1), "leak"))
        obs.append(leak(enc_ob(be, k, m, hd, 1, 0), "leak"))
    for be, k, m, hd in [(RS, 2, 1, 1), (ISAV, 2, 1, 1)] + ([(RS, 2, 2, 2)] if thorough else []):
        n = k + m
        obs.append(leak(l2_ob(be, k, m, hd, list(range(1, n))), "leak"))                       # decode via back end
        obs.append(leak(l2_ob(be, k, m, hd, list(range(1, n)), unalign=(1 << (n - 1)) - 1), "leak"))          # ... with every fragment buffer unaligned (copies made and released)
        obs.append(leak(l2_ob(be, k, m, hd, list(range(1, n)), mode=2, dest=0, unalign=1 << (n - 2)), "leak"))  # reconstruct with an unaligned parity
        obs.append(leak(l2_ob(be, k, m, hd, list(range(n))[::-1], ct=2, force=1), "leak"))       # fast path with checks
        obs.append(leak(l2_ob(be, k, m, hd, list(range(1, n)), mode=2, dest=0, ct=2), "leak"))   # reconstruct
        obs.append(leak(l2_ob(be, k, m, hd, list(range(n)), mode=2, dest=1), "leak"))            # destination supplied
        # documented errors: insufficient fragments, bad header, foreign fragment under forced checks
        obs.append(leak(l2_ob(be, k, m, hd, [n - 1], expect=(-1 if k > 1 else 1)), "leak"))
        obs.append(leak(l2_ob(be, k, m, hd, [n - 1] * (k + 1), expect=(-1 if k > 1 else 1)), "leak"))
        obs.append(leak(l2_ob(be, k, m, hd, list(range(1, n)), force=1, ct=2, hdrdmg=(0, 1, 9), uf=True, expect=(-1 if n - 2 < k else 0)), "leak"))
        obs.append(leak(l2_ob(be, k, m, hd, list(range(1, n)), mode=2, dest=0, hdrdmg=(0, 0, 77), uf=True, expect=-1), "leak"))
    # invalid arguments and failing back-end operations carry the leak check in their own plans (C13, C17); a few are repeated here
    from props.c13 import plan as p13
    from props.c17 import plan as p17
    obs += [leak(o, "leak") for o in p13(ctx)["obs"] if o.id.startswith(("args-decode", "args-encode", "refuse-xor4_3", "cycle-rs1_1", "cycle-xor3_3", "create-box-xor"))]
    obs += [leak(o, "leak") for o in p17(ctx)["obs"] if o.id.startswith(("fail-decode-rs", "fail-init-rs"))]
    # flat-XOR decoder's own allocations (three-data path allocates a scratch parity buffer)
    import itertools
    for (k, m, hd) in [(6, 5, 4), (6, 6, 4)] + ([(8, 5, 4), (10, 5, 4), (12, 6, 4)] if thorough else []):
        triples = list(itertools.combinations(range(k), 3))       # every three-data pattern (the scratch-buffer path is taken only by some of them)
        mixed = [(0, 1, k), (1, k, k + 1), (0,), (k,)]
        for i, ch in enumerate(chunks(triples + mixed, 12)):
            obs.append(leak(xor_l1_ob(k, m, hd, ch, b=4, tag="xor3d", idx=i), "leak"))
    return {"obs": obs,
            "assumptions": ["histories of <= 4 API calls per query from a fresh instance (the statement's 300-call histories are outside reach): per-call reading - each call returns the heap to its prior state plus what it hands to the caller, and the cleanup call releases exactly that",
                            "CBMC --memory-leak-check plus its double-free / use-after-free / free-of-non-heap checks; allocation never fails"],
            "trusted": ENV_TRUST + GF_TRUST + ISAL_TRUST + ZCRC_TRUST + UF_TRUST}
