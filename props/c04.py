import os, itertools
from props.shapes import *
from vlib import core

K2_SRC = r'''
#include <stdio.h>
#include <stdlib.h>
#include <pthread.h>
#include <stdint.h>
void rs_galois_init_tables(void); int rs_galois_mult(int,int); int rs_galois_div(int,int); int rs_galois_inverse(int);
static inline unsigned ref_mul(unsigned a, unsigned b){ unsigned r=0; for(int i=0;i<16;i++){ r^=a&(0u-(b&1u)); b>>=1; a<<=1; a^=0x1100bu&(0u-((a>>16)&1u)); } return r; }
static unsigned ref_inv(unsigned y){ unsigned r=1,s=y; for(int i=1;i<16;i++){ s=ref_mul(s,s); r=ref_mul(r,s);} return r; }
static unsigned inv_tab[65536];
struct job { int lo, hi; long bad; int bx, by, kind; };
static void *work(void *a){ struct job *j=a; for(int x=j->lo;x<j->hi;x++) for(int y=0;y<65536;y++){
  if ((unsigned)rs_galois_mult(x,y)!=ref_mul(x,y)) { if(!j->bad){j->bx=x;j->by=y;j->kind=0;} j->bad++; }
  int d=rs_galois_div(x,y); int e = x==0?0 : y==0?-1 : (int)ref_mul(x,inv_tab[y]);
  if (d!=e) { if(!j->bad){j->bx=x;j->by=y;j->kind=1;} j->bad++; } }
  return 0; }
int main(void){ rs_galois_init_tables(); for(int y=1;y<65536;y++){ inv_tab[y]=ref_inv(y); if(rs_galois_inverse(y)!=(int)inv_tab[y]){printf("MISMATCH inverse %d\n",y);return 1;} }
  if (rs_galois_inverse(0)!=-1){printf("MISMATCH inverse 0\n");return 1;}
  enum{T=16}; pthread_t th[T]; struct job jb[T]; for(int t=0;t<T;t++){ jb[t]=(struct job){t*4096,(t+1)*4096,0,0,0,0}; pthread_create(&th[t],0,work,&jb[t]); }
  long bad=0; for(int t=0;t<T;t++){ pthread_join(th[t],0); if(jb[t].bad){ printf("MISMATCH %s x=%d y=%d\n", jb[t].kind?"div":"mult", jb[t].bx, jb[t].by); bad+=jb[t].bad; } }
  printf("pairs=4294967296 mismatches=%ld\n", bad); return bad!=0; }
'''

def native_k2(ctx):
    """K2: production-width rs_galois_mult/div/inverse == the arithmetic contract on all 2^32 pairs (stub validation)"""
    src = os.path.join(ctx.work, "k2.c")
    open(src, "w").write(K2_SRC)
    exe = os.path.join(ctx.work, "k2")
    rc, o, e, to, _ = core.run(["gcc", "-O2", "-pthread", src, os.path.join(core.REPO, "src/builtin/rs_vand/rs_galois.c"), "-o", exe], timeout=120)
    if rc != 0:
        return False, "K2 build failed: " + e[-400:], ""
    rc, o, e, to, _ = core.run([exe], timeout=900)
    rp = ""
    if rc != 0:
        rp = os.path.join(core.VERIF, "replay", "found", "C04-K2.txt")
        os.makedirs(os.path.dirname(rp), exist_ok=True)
        open(rp, "w").write(o)
    return rc == 0, "K2 real GF(2^16) tables vs contract, exhaustive: " + o.strip()[-200:], rp

def plan(ctx):
    thorough = ctx.tier == "thorough"
    obs = []
    GU = ["galois_w8", "env"]
    obs.append(Ob(id="K1-arith-w8", harness="c04_gf.c", defs=dict(MODE=1), units=GU, unwind=10, unwindset={"rs_galois_init_tables.0": 257}, timeout=900, mem_gb=6,
                  sample={"symbolic": "x,y in [0,255] (all 65536 pairs), real rs_galois.c source at w=8"}, targets=["rs_galois_init_tables", "rs_galois_mult", "rs_galois_div", "rs_galois_inverse", "rs_galois_deinit_tables"]))
    obs.append(Ob(id="K1-refcount-w8", harness="c04_gf.c", defs=dict(MODE=2), units=GU, unwind=10, unwindset={"rs_galois_init_tables.0": 257}, timeout=900, mem_gb=8,
                  sample={"symbolic": "6 init/deinit choices"}, targets=["rs_galois_init_tables", "rs_galois_deinit_tables"]))
    if thorough:
        obs.append(Ob(id="K3-init-w16", harness="c04_gf.c", defs=dict(MODE=3), units=["galois_real", "env"], unwind=4, unwindset={"rs_galois_init_tables.0": 65537}, timeout=1800, mem_gb=12,
                      sample={"symbolic": "none: memory safety of the production-width fill loop"}, targets=["rs_galois_init_tables"], need_witness=True))
    MU = ["rsvand", "galois_stubbed", "gf16_ref", "ref_format", "xor_eq", "env"]
    if thorough:
        shapes = [(k, m) for k in range(1, 32) for m in range(1, 33 - k) if k + m <= 16 or m <= 4 or k <= 2]
        shapes = [s for s in shapes if s[0] * (s[0] + s[1]) <= 200 and (s[0] + s[1] <= 12 or s[1] <= 4 or s[0] <= 2 or (s[0] + s[1]) % 4 == 0)]
    else:
        shapes = [(1, 1), (2, 1), (1, 2), (2, 2), (3, 2), (4, 2), (5, 3), (10, 4), (8, 8), (1, 31), (12, 4), (6, 26)]
    for k, m in shapes:
        n = k + m
        obs.append(Ob(id=f"matrix-{k}_{m}", harness="c04_matrix.c", defs=dict(K=k, M=m), units=MU, unwind=n + 3, timeout=1800, mem_gb=16 if k * n > 100 else 6,
                      flags=["--max-field-sensitivity-array-size", "1100"] if k * n > 200 else [], noflags=[],
                      sample={"symbolic": "none (concrete symbolic execution of the real matrix construction)", "shape": [k, m]},
                      targets=["make_systematic_matrix", "create_non_systematic_vand_matrix", "col_mult", "col_mult_and_add", "get_non_zero_diagonal", "swap_matrix_rows"]))
    for mode in (1, 2):
        obs.append(Ob(id=f"region-mode{mode}", harness="c04_region.c", defs=dict(MODE=mode, NMAX=10), units=MU, unwind=16, timeout=900, mem_gb=6,
                      sample={"symbolic": "block size 0..10, 2x14 buffer bytes" + (", coefficient, xor flag" if mode == 2 else "")},
                      targets=["region_xor"] if mode == 1 else ["region_multiply"]))
    # encode words + MDS: every k-subset of rows decodes (exhaustive erasure sets of size exactly m)
    mds = [(2, 1), (2, 2), (3, 2)] + ([(4, 2), (3, 3), (4, 3), (5, 3), (4, 4), (6, 3), (6, 4), (8, 4), (10, 2)] if thorough else [])
    for k, m in mds:
        sets = list(esets(k + m, m, m))
        if len(sets) > 60:
            import random as _r
            sets = _r.Random(ctx.seed or 4).sample(sets, 60)
        for i, ch in enumerate(chunks(sets, 1)):
            obs.append(be_l1_ob(RS, k, m, m, ch, w=1, tag="mds", idx=i, timeout=1500, mem=(12 if k >= 8 else 4)))
    return {"obs": obs, "native": [native_k2],
            "assumptions": ["K1 proves the table algorithm at width 8 for every operand pair; the production-width table CONTENTS are covered by K2's exhaustive native comparison only",
                            "matrix harnesses execute the real construction concretely inside CBMC (GF contract), compared with the closed form computed by the model's own arithmetic",
                            "MDS: exhaustive k-subsets for the listed shapes; larger shapes rest on the closed form (systematic generator from distinct evaluation points is MDS)"],
            "trusted": GF_TRUST + ["model/ref_format.c ref_coeff: closed form L_j(r)/L_j(k)"]}
