from props.common import *
def plan(ctx):
    obs = []
    for name, defs in (("sealed", {}), ("sealed-pay16", {"PAY": 16})):
        obs.append(Ob(id=f"twin-{name}", harness="c11.c", defs=defs, units=uf_units(), unwind=10,
                      unwindset={"main.0": 10, "main.1": 10, "main.2": 10, "main.3": 10}, timeout=600, mem_gb=6,
                      sample={"symbolic": "84 bytes of an opposite-endian fragment, 6 checksum values; native twin derived by field swap",
                              "variant": name},
                      targets=["liberasurecode_get_fragment_metadata", "is_invalid_fragment_header"]))
    return {"obs": obs, "assumptions": ["CRCs uninterpreted; payload CRC values shared by the twins (equal payload bytes)",
                                        "sealed: both headers accepted, stored checksum relates to each image's own CRC identically; unsealed: arbitrary stored checksum with v1==v2 not assumed"],
            "trusted": ENV_TRUST + UF_TRUST}
