import random, itertools
from props.shapes import *
from props.c05 import l1_ob as xor_l1_ob
from props.xorsets import TABLES

def plan(ctx):
    rnd = random.Random(ctx.seed or 11)
    thorough = ctx.tier == "thorough"
    obs = []
    shapes = [(RS, 2, 1, 1), (RS, 2, 2, 2), (ISAV, 2, 1, 1)] + ([(RS, 3, 1, 1), (ISAC, 2, 1, 1), (RS, 3, 2, 2)] if thorough else [])
    for be, k, m, hd in shapes:
        n = k + m
        unit = k * WB[be]
        subsets = [s for r in range(1, n + 1) for s in itertools.combinations(range(n), r)]
        for s in subsets:
            exp = 1 if len(s) >= k else -1
            obs.append(l2_ob(be, k, m, hd, list(s)[::-1], ln=unit + 1, expect=exp, tag="sub"))
        # multisets: duplicates that do not add information
        obs.append(l2_ob(be, k, m, hd, [0] * k, ln=unit + 1, expect=(1 if k == 1 else -1), tag="dup"))
        obs.append(l2_ob(be, k, m, hd, [n - 1] * (k + 1), ln=unit + 1, expect=(1 if k == 1 else -1), tag="dup"))
        # reconstruct: every subset x a destination (all destinations in thorough)
        for s in subsets:
            dests = range(n) if thorough else sorted({0, n - 1, (s[0] + 1) % n})
            for d in dests:
                exp = 1 if (len(s) >= k or d in s) else -1
                if len(s) < k and d in s:
                    exp = 0      # destination supplied: the statement allows either returning it or an error when the stripe is insufficient
                obs.append(l2_ob(be, k, m, hd, list(s), ln=unit + 1, mode=2, dest=d, expect=exp, tag="subrec"))
    # flat-XOR beyond the distance but within what the front end lets through (hd <= |E| <= m): error or exact, never a crash
    tabs = [(3, 3, 3), (5, 5, 3), (5, 5, 4), (6, 6, 3), (6, 6, 4), (10, 5, 3)] if not thorough else TABLES
    for (k, m, hd) in tabs:
        n = k + m
        sets = list(esets(n, hd, m))
        lim = 64 if not thorough else 160
        if len(sets) > lim:
            sets = rnd.sample(sets, lim)
        for i, ch in enumerate(chunks(sets, 16)):
            obs.append(xor_l1_ob(k, m, hd, ch, b=4, band=True, tag="band", idx=i))
        # the adapter's op table (flat_xor_hd_decode / _reconstruct decide what the public API returns): decode AND reconstruct of every erased index
        asets = sets if thorough else sets[:24]
        for i, ch in enumerate(chunks(asets, 8)):
            obs.append(be_l1_ob(XOR, k, m, hd, ch, band=True, tag="bandops", idx=i, timeout=1500))
    return {"obs": obs,
            "assumptions": ["every non-empty subset of the stripe for the listed small RS/ISA-L shapes through the public API; flat-XOR band hd<=|E|<=m at the back-end interface (the front end passes these sets through)",
                            "CBMC pointer/bounds checks stand for 'never reads or writes outside the buffers'; buffers are exact-size objects"],
            "trusted": ENV_TRUST + GF_TRUST + ISAL_TRUST + ZCRC_TRUST + ["model/ref_format.c", "model/xor_eq.c"]}
