import random
from props.shapes import *
from props.c06 import fn_ob

def plan(ctx):
    rnd = random.Random(ctx.seed or 19)
    thorough = ctx.tier == "thorough"
    obs = []
    # back-end ops, exhaustive erasure sets for small shapes (reconstruct of every erased index included)
    small = [(ISAV, 2, 1), (ISAC, 2, 2), (ISAV, 3, 2), (ISAC, 3, 2), (ISAV, 4, 2)] + ([(ISAV, 2, 2), (ISAC, 3, 3), (ISAC, 4, 2), (ISAV, 5, 3), (ISAC, 5, 3), (ISAV, 4, 4), (ISAC, 4, 4), (ISAV, 6, 3), (ISAC, 6, 3), (ISAV, 8, 4), (ISAC, 8, 4)] if thorough else [])
    for be, k, m in small:
        n = k + m
        if thorough:
            sets = list(esets(n, 1, m))
            if len(sets) > 100:
                sets = [s for s in sets if len(s) <= 1] + rnd.sample([s for s in sets if len(s) > 1], 90)
        else:
            # every set of one or two erasures; the larger ones (each costs a decode plus one reconstruct per erased index) sampled
            pairs = list(esets(n, 2, 2)) if m >= 2 else []
            sets = list(esets(n, 1, 1)) + (rnd.sample(pairs, min(len(pairs), 5)))    # every single erasure + 5 sampled pairs
            if m > 2:
                sets += rnd.sample(list(esets(n, m, m)), min(2, len(list(esets(n, m, m)))))
        for i, ch in enumerate(chunks(sets, 1)):
            obs.append(be_l1_ob(be, k, m, m, ch, w=1, tag="isal", idx=i, timeout=1200))
    # m >= 3: a lost data fragment together with two or more lost parities (the synthesised parity rows of get_inverse_rows depend on each other's bookkeeping)
    for be, k, m in [(ISAC, 3, 3), (ISAV, 4, 3)] + ([(ISAC, 5, 3), (ISAV, 4, 4)] if thorough else []):
        sets = [(0, k, k + 1), (k - 1, k + 1, k + 2), (0, 1, k + 2), (1, k, k + 2)] if thorough else [(0, k, k + 1), (k - 1, k + 1, k + 2)]
        for i, ch in enumerate(chunks(sets, 1)):
            obs.append(be_l1_ob(be, k, m, m, ch, tag="isalm3", idx=i, timeout=1500))
    # larger / corner shapes, sampled sets (gf_gen_rs_matrix is not MDS for every shape: singular survivor sets must give an error)
    big = [(ISAV, 10, 4)] + ([(ISAC, 10, 4), (ISAV, 12, 4), (ISAC, 12, 6), (ISAV, 16, 4), (ISAV, 20, 4), (ISAC, 16, 8)] if thorough else [])
    for be, k, m in big:
        n = k + m
        sets = [tuple(sorted(rnd.sample(range(n), rnd.randint(1, min(m, 2))))) for _ in range(1 if not thorough else 8)] + [tuple(range(2))]
        for i, ch in enumerate(chunks(sets, 1)):
            obs.append(be_l1_ob(be, k, m, m, ch, tag="isalbig", idx=i, timeout=1800, mem=12))
    # injected inversion failure: error, never bytes
    for be, k, m in [(ISAV, 2, 1), (ISAC, 3, 2), (ISAV, 4, 2)]:
        obs.append(be_l1_ob(be, k, m, m, [(0,), (k,), (0, k)[:m]], singular=True, tag="singular", idx=0))
    # public API on the smallest shapes (decode + reconstruct, every erasure set)
    for be, k, m in [(ISAV, 2, 1)] + ([(ISAC, 2, 1), (ISAV, 2, 2), (ISAV, 3, 1)] if thorough else []):
        n = k + m
        for e in esets(n, 1, m):
            surv = [i for i in range(n) if i not in e]
            obs.append(l2_ob(be, k, m, m, surv[::-1], ln=k + 1, tag="isal-l2", mem=8))
            obs.append(l2_ob(be, k, m, m, surv, ln=k + 1, mode=2, dest=e[0], ct=1, tag="isal-l2", mem=8))
    # fragments needed
    for be, k, m in [(ISAV, 4, 2), (ISAC, 3, 3), (ISAV, 10, 4)]:
        obs.append(fn_ob(be, k, m, m, 1, m))
    return {"obs": obs,
            "assumptions": ["model/gf8.c stands for 'any library implementing ISA-L's documented primitives' (GF(2^8)/0x11d, gf_gen_rs_matrix, gf_gen_cauchy1_matrix, gf_invert_matrix, ec_init_tables, ec_encode_data)",
                            "shapes k>2 use the split oracle (D6); erasure sets exhaustive for the small shapes, seeded samples for the larger ones",
                            "when the first k surviving rows are singular the adapters must return an error (checked whenever the model's own inversion fails)"],
            "trusted": ENV_TRUST + ISAL_TRUST + ["model/ref_format.c"]}
