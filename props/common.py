from vlib.core import Ob, FRONT

ENV_TRUST = [
    "env/env.c: dlopen/dlsym resolve to in-image plug-ins, logging empty, getenv harness-controlled, rwlock monitor, inert jerasure/shss/phazr descriptors",
    "CBMC 6.11 C front end, symbolic execution and its libc models (malloc never fails: --no-malloc-may-fail)",
]
UF_TRUST = ["env/env_crc_uf.c: zlib crc32 and liberasurecode_crc32_alt uninterpreted, memoised per (pointer,length)"]
GF_TRUST = ["model/gf16_ref.c replaces rs_galois_mult/div/inverse (justified by C04 K1 solver proof at w=8 + K2 exhaustive native comparison at w=16)"]
ISAL_TRUST = ["model/gf8.c: clean-room ISA-L primitives (libisal is not installed)"]
ZCRC_TRUST = ["model/zcrc32.c: bitwise zlib crc32 (validated natively against libz in C10)"]

def uf_units():
    u = [x for x in FRONT if x != "crc32alt"]
    return u + ["env_crc_uf"]

def real_crc_units():
    return list(FRONT) + ["zcrc32"]
