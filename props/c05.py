import random
from props.common import *
from props.xorsets import *

XU = ["xor_code", "xor_hd_code", "xor_eq", "env"]
XU_SSE = ["xor_code_sse2", "xor_hd_code", "xor_eq", "env"]

def l1_ob(k, m, hd, sets, b=4, sse=False, band=False, tag="dec", idx=0, sym=False, timeout=900, mem=8):
    sw = max(4, max((len(s) for s in sets), default=0) + 1) if not sym else 4
    defs = dict(K=k, M=m, HD=hd, B=b, SW=sw)
    if sym:
        defs["SYMSET"] = None
    else:
        defs["SETS"] = fmt_sets(sets, sw)
    if band:
        defs["BAND"] = 1
    return Ob(id=f"{tag}-{k}_{m}_{hd}-b{b}-{'sse2' if sse else 'port'}-{'sym' if sym else idx}", harness="xor_l1.c", defs=defs,
              units=XU_SSE if sse else XU, unwind=max(k + m + 3, b + 3, 35), timeout=timeout, mem_gb=mem,
              sample={"symbolic": f"{k}x{b} payload bytes" + (", erasure list (|E|<hd)" if sym else ""), "table": [k, m, hd],
                      "erasure_sets": "symbolic" if sym else [list(s) for s in sets][:4], "n_sets": 0 if sym else len(sets),
                      "flavour": "INTEL_SSE2" if sse else "portable", "bound_payload": b},
              targets=["init_xor_hd_code", "xor_code_encode", "xor_hd_decode", "xor_reconstruct_one", "xor_bufs_and_store",
                       "decode_one_data", "decode_two_data", "decode_three_data", "selective_encode", "get_failure_pattern"])

def plan(ctx):
    rnd = random.Random(ctx.seed or 12345)
    obs = []
    exhaustive = True
    for (k, m, hd) in TABLES:
        n = k + m
        # table facts + distance
        obs.append(Ob(id=f"dist-{k}_{m}_{hd}", harness="xor_l0.c", defs=dict(MODE=1, K=k, M=m, HD=hd), units=XU, unwind=35, timeout=600, mem_gb=4,
                      sample={"symbolic": f"{k}-bit non-zero data vector (all 2^{k}-1 codewords)", "table": [k, m, hd]}, targets=["init_xor_hd_code"]))
        allsets = list(esets(n, 0, hd - 1))
        if ctx.tier == "quick" and len(allsets) > 60:
            singles = [s for s in allsets if len(s) <= 1]
            rest = [s for s in allsets if len(s) > 1]
            singles = [()] + rnd.sample([s for s in singles if s], 7)
            pick = singles + rnd.sample(rest, 8)
            exhaustive = False
        else:
            pick = allsets
        for i, ch in enumerate(chunks(pick, 16 if n <= 11 else 24)):
            obs.append(l1_ob(k, m, hd, ch, b=4, idx=i))
    # payload lengths / build flavours (chunk + tail paths of xor_bufs_and_store inside the decoders)
    for (k, m, hd) in [(3, 3, 3), (6, 6, 4)] + ([(10, 5, 3), (12, 6, 4), (15, 6, 3), (20, 6, 4), (10, 5, 4)] if ctx.tier == "thorough" else []):
        n = k + m
        s3 = [s for s in esets(n, hd - 1, hd - 1)]
        pick = [s3[0], s3[len(s3) // 2], s3[-1], (0,), (n - 1,)]
        for b in ((1, 16, 20) if ctx.tier == "quick" else (1, 16, 20, 33)):
            for sse in (False, True):
                obs.append(l1_ob(k, m, hd, pick, b=b, sse=sse, tag="len", idx=0))
    # symbolic erasure list on the smallest table (one query = all sets)
    if ctx.tier == "thorough":
        obs.append(l1_ob(3, 3, 3, [], sym=True, tag="symset", timeout=3000, mem=12))
    for sse in (False, True):
        obs.append(Ob(id=f"xorbufs-{'sse2' if sse else 'port'}", harness="xor_l0.c", defs=dict(MODE=2, NMAX=48, K=3, M=3, HD=3), units=XU_SSE if sse else XU,
                      unwind=70, timeout=600, mem_gb=4, sample={"symbolic": "length 0..48, 2x64 buffer bytes", "flavour": "INTEL_SSE2" if sse else "portable"},
                      targets=["xor_bufs_and_store"]))
    obs.append(Ob(id="unsupported-shapes", harness="xor_l0.c", defs=dict(MODE=3, K=3, M=3, HD=3), units=XU, unwind=8, timeout=300, mem_gb=4,
                  sample={"symbolic": "(k,m,hd) in [-1,33]^2 x [0,7] outside the 38 supported shapes"}, targets=["init_xor_hd_code"]))
    return {"obs": obs, "cov": {"exhaustive_erasure_sets": exhaustive},
            "assumptions": ["payload 4 bytes per fragment for the erasure-set sweep; lengths 1,16,20,33 on selected tables; longer payloads only through the xor_bufs_and_store kernel (n<=48)",
                            "quick tier: tables with more than 60 erasure sets below hd use 7 sampled single erasures + 8 seeded random larger sets (the two smallest tables stay exhaustive); thorough: every set with |E|<hd for all 38 tables",
                            "buffers 16-byte aligned (the front end guarantees this; unaligned inputs are C01 L2)"],
            "trusted": ["model/xor_eq.c: frozen copy of the 38 equation sets from the pinned revision (oracle)", "CBMC 6.11 C front end incl. emmintrin.h SSE2 intrinsics"]}
