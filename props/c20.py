import itertools
from props.shapes import *

def plan(ctx):
    thorough = ctx.tier == "thorough"
    obs = []
    shapes = [(RS, 2, 1, 1), (ISAV, 2, 1, 1)] + ([(RS, 2, 2, 2), (RS, 3, 1, 1)] if thorough else [])
    for be, k, m, hd in shapes:
        n = k + m
        unit = k * WB[be]
        subsets = [s for r in range(k, n + 1) for s in itertools.combinations(range(n), r)]
        if n > 3:
            # decoding both data fragments of RS(2,2) from the two parities is the XOR-hard full round trip (170-420 s per query): keep the sets that leave a data fragment
            subsets = [s for s in subsets if len(s) == n] + [s for s in subsets if len(s) == n - 1][::2]
        for s in subsets:
            order = list(s)
            for r in range(1, len(s) + 1):
                for bpos in itertools.combinations(range(len(s)), r):
                    if not thorough and r > 2:
                        continue
                    valid = len(s) - r
                    exp = 1 if valid >= k else -1
                    mask = sum(1 << p for p in bpos)
                    for pos in ((0,) if not thorough else (0, WB[be] - 1 if WB[be] > 1 else 0)):
                        obs.append(l2_ob(be, k, m, hd, order, ln=unit + 1, force=1, ct=2, dmg=mask, dmgpos=pos, uf=True, expect=exp, tag="dmg"))
            # re-sealed header field edits on one fragment
            vals = {0: [n, n + 7, "0x80000000u"], 1: [9, 200], 2: [0, "BE_VERSION + 1"]}
            for field in (0, 1, 2):
                for val in (vals[field] if thorough else vals[field][:2]):
                    valid = len(s) - 1
                    exp = 1 if valid >= k else -1
                    if field == 0 and exp == 1:
                        exp = 0          # an out-of-range index may also be refused outright
                    obs.append(l2_ob(be, k, m, hd, order, ln=unit + 1, force=1, ct=2, hdrdmg=(0, field, val), uf=True, expect=exp, tag="hdr"))
    # the same index supplied twice, one copy damaged (first or last): the valid copy must be used
    for be, k, m, hd in [(RS, 2, 1, 1)] + ([(RS, 2, 2, 2), (ISAV, 2, 1, 1)] if thorough else []):
        unit = k * WB[be]
        for order, mask in (([0, 1, 0], 1), ([0, 1, 0], 4), ([1, 2, 1], 1), ([2, 0, 2], 1), ([0, 0, 1, 2], 1)):
            obs.append(l2_ob(be, k, m, hd, order, ln=unit + 1, force=1, ct=2, dmg=mask, uf=True, expect=1, tag="dmgdup"))
    return {"obs": obs,
            "assumptions": ["payload damage: CRCs abstracted to distinct constants per (fragment, region) - the outcome depends only on which checksums are equal - with the damaged payload checksumming to a different constant under both flavours (that the real CRCs detect the damage is C10); header edits: CRCs uninterpreted and re-sealed",
                            "out-of-range index edits: an outright error is accepted as well as decoding from the remaining valid fragments",
                            "damage = symbolic non-zero XOR of one payload byte (position enumerated) per damaged fragment"],
            "trusted": ENV_TRUST + UF_TRUST + GF_TRUST + ISAL_TRUST + ["model/ref_format.c"]}
