import itertools
TABLES = [(3, 3, 3)] + [(k, 5, 3) for k in range(5, 11)] + [(k, 6, 3) for k in range(6, 16)] + [(k, 5, 4) for k in range(5, 11)] + [(k, 6, 4) for k in range(6, 21)]
assert len(TABLES) == 38

def esets(n, lo, hi):
    for r in range(lo, hi + 1):
        for c in itertools.combinations(range(n), r):
            yield c

def fmt_sets(sets, sw):
    return ",".join("{" + ",".join(str(x) for x in (list(s) + [-1] * sw)[:sw]) + "}" for s in sets)

def chunks(lst, n):
    for i in range(0, len(lst), n):
        yield lst[i:i + n]
