from props.shapes import *
from props.xorsets import TABLES

def fn_ob(be, k, m, hd, lo, hi, beyond=False, rev=False, timeout=900, mem=4, l1=None):
    defs = dict(BE=be, K=k, M=m, HD=hd, LO=lo, HI=hi)
    if l1 is None:
        l1 = (be == XOR)
    if l1: defs["L1XOR"] = None
    if beyond: defs["BEYOND"] = None
    if rev: defs["REVERSED"] = None
    return Ob(id=f"need-{BNAME[be]}{k}_{m}_{hd}-{lo}to{hi}" + ("-beyond" if beyond else "") + ("-rev" if rev else "") + ("" if l1 or be != XOR else "-api"), harness="c06.c", defs=defs,
              units=(["xor_code", "xor_hd_code", "xor_eq", "env"] if l1 else FRONT + ["xor_eq"]), unwind=k + m + 4, timeout=timeout, mem_gb=(mem if k + m <= 18 else max(mem, 8)),
              unwindset={"pop.0": 34, "xor_eq_find.0": 40, "ec_init_tables.0": 40, "ec_init_tables.1": 40, "ec_init_tables.2": 40},
              sample={"symbolic": f"disjoint bitmasks R (non-empty), X over {k+m} indexes with {lo} <= |R|+|X| <= {hi}", "shape": [BNAME[be], k, m, hd],
                      "list_order": "descending" if rev else "ascending", "beyond_tolerance": beyond},
              targets=["liberasurecode_fragments_needed"] + (["flat_xor_hd_min_fragments", "xor_hd_fragments_needed", "fragments_needed_one_data", "fragments_needed_two_data",
                       "fragments_needed_three_data", "index_of_connected_parity", "get_failure_pattern"] if be == XOR else ["liberasurecode_rs_vand_min_fragments" if be == RS else "isa_l_min_fragments"]))

def plan(ctx):
    thorough = ctx.tier == "thorough"
    obs = []
    tabs = TABLES if thorough else [(3, 3, 3), (5, 5, 3), (10, 5, 3), (6, 6, 3), (5, 5, 4), (6, 5, 4), (10, 5, 4), (6, 6, 4)]
    for (k, m, hd) in tabs:
        obs.append(fn_ob(XOR, k, m, hd, 1, hd - 1))
        obs.append(fn_ob(XOR, k, m, hd, hd, m, beyond=True))
        if thorough or (k, m, hd) in ((3, 3, 3), (6, 5, 4)):
            obs.append(fn_ob(XOR, k, m, hd, 1, hd - 1, rev=True))
    # the public wrapper + adapter on the smallest table (return-code propagation, argument forwarding)
    obs.append(fn_ob(XOR, 3, 3, 3, 1, 2, l1=False, timeout=1800, mem=12))
    obs.append(fn_ob(XOR, 3, 3, 3, 3, 3, beyond=True, l1=False, timeout=1800, mem=12))
    rs = [(RS, 2, 1), (RS, 3, 2), (RS, 4, 2), (RS, 5, 3), (ISAV, 4, 2), (ISAC, 3, 3), (ISAV, 10, 4)] + ([(RS, 6, 3), (RS, 8, 4), (RS, 10, 2), (ISAV, 8, 4), (ISAC, 8, 4), (ISAV, 28, 4), (ISAV, 12, 4)] if thorough else [])
    for be, k, m in rs:
        obs.append(fn_ob(be, k, m, m, 1, m))
        obs.append(fn_ob(be, k, m, m, m + 1, min(k + m, m + 2), beyond=True))
        if (k, m) in ((4, 2), (3, 3)) or thorough:
            obs.append(fn_ob(be, k, m, m, 1, m, rev=True))
    return {"obs": obs,
            "assumptions": ["sufficiency for flat-XOR is the GF(2) span over the frozen equations; for the MDS codes any k distinct rows are sufficient (C04, C19)",
                            "lists are written in ascending (or, -rev, descending) index order"],
            "trusted": ENV_TRUST + GF_TRUST + ISAL_TRUST + ["model/xor_eq.c"]}
