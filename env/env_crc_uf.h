#ifndef ENV_CRC_UF_H
#define ENV_CRC_UF_H
#include <stdint.h>
#include <stddef.h>
#define UF_SLOTS 24
struct uf_call { const void *p; size_t len; uint32_t v; int calls; };
extern struct uf_call uf_std[UF_SLOTS], uf_alt[UF_SLOTS];
extern int uf_std_n, uf_alt_n, uf_overflow;
void uf_define(int alt, const void *p, size_t len, uint32_t v);
#endif
