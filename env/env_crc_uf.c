/* Uninterpreted CRCs (DESIGN D4): both checksum functions return a value that is
 * nondeterministic but memoised per (pointer,length), so implementation and reference
 * predicate see the same two 32-bit values.  Linked INSTEAD of utils/chksum/crc32.c and
 * model/zcrc32.c in the predicate harnesses.  Every call is recorded so the harness can
 * assert which regions were checksummed. */
#include <stdint.h>
#include <stddef.h>
#include "vh.h"
#include "env_crc_uf.h"

struct uf_call uf_std[UF_SLOTS], uf_alt[UF_SLOTS];
int uf_std_n, uf_alt_n;
int uf_overflow;

static uint32_t uf_lookup(struct uf_call *t, int *n, const void *p, size_t len)
{
    for (int i = 0; i < *n; i++)
        if (t[i].p == p && t[i].len == len) { t[i].calls++; return t[i].v; }
    if (*n >= UF_SLOTS) { uf_overflow = 1; return 0; }
    t[*n].p = p; t[*n].len = len; t[*n].calls = 1;
    t[*n].v = vin_u32();
    return t[(*n)++].v;
}

/* the harness names the value a region checksums to before the code under test runs, so the
 * reference predicate can speak about the same value (and "re-seal" a header by assuming the
 * stored checksum equals it) */
void uf_define(int alt, const void *p, size_t len, uint32_t v)
{
    struct uf_call *t = alt ? uf_alt : uf_std;
    int *n = alt ? &uf_alt_n : &uf_std_n;
    if (*n >= UF_SLOTS) { uf_overflow = 1; return; }
    t[*n].p = p; t[*n].len = len; t[*n].v = v; t[*n].calls = 0;
    (*n)++;
}

unsigned long crc32(unsigned long crc, const unsigned char *buf, unsigned int len)
{
    CHECK(crc == 0, "zlib crc32 called with a non-zero seed");
    return uf_lookup(uf_std, &uf_std_n, buf, len);
}

int liberasurecode_crc32_alt(int crc, const void *buf, size_t size)
{
    CHECK(crc == 0, "crc32_alt called with a non-zero seed");
    return (int)uf_lookup(uf_alt, &uf_alt_n, buf, size);
}
