/* Environment model linked into every goto binary and every native replayer.
 * Everything here is part of the trusted base and is listed in the evidence files.
 */
#include <stdint.h>
#include <stddef.h>
#include <string.h>
#include <stdlib.h>
#include <stdio.h>
#include "vh.h"
#include "erasurecode.h"
#include "erasurecode_backend.h"

/* ---- harness input log / native replay reader ---- */
#ifdef VCBMC
uint64_t vin_log[VIN_MAX];
unsigned vin_n;
#else
static FILE *vin_f;
uint64_t vin(void)
{
    unsigned long long v = 0;
    if (!vin_f) {
        extern char **environ;
        const char *p = NULL;
        for (char **e = environ; *e; e++)
            if (strncmp(*e, "VERIF_REPLAY=", 13) == 0) p = *e + 13;
        vin_f = p ? fopen(p, "r") : NULL;
        if (!vin_f) { fprintf(stderr, "no VERIF_REPLAY file\n"); exit(4); }
    }
    if (fscanf(vin_f, "%llu", &v) != 1) { puts("REPLAY-INPUT-EXHAUSTED"); exit(5); }
    return v;
}
void vh_fail(const char *msg) { printf("REPLAY-FAIL %s\n", msg); fflush(stdout); exit(1); }
void vh_assume_false(const char *c) { printf("REPLAY-ASSUME-FALSE %s\n", c); fflush(stdout); exit(3); }
#endif

#ifndef VCBMC
/* native replay: never shadow libc symbols the sanitizer run-time needs; the repo sources are
 * compiled with the same -D renames (vlib/core.py NATIVE_RENAMES) */
#define dlopen env_dlopen
#define dlclose env_dlclose
#define dlerror env_dlerror
#define dlsym env_dlsym
#define openlog env_openlog
#define closelog env_closelog
#define syslog env_syslog
#define getenv env_getenv
#endif

/* ---- controls ---- */
const char *env_getenv_value = NULL;
int env_dlopen_fail = 0;
int env_dlsym_fail_at = 0;
static int env_dlsym_calls = 0;
int env_lock_depth = 0;
int env_lock_blocking = 0;             /* C18: a second taker of the held lock is blocked (schedule infeasible) */
int env_isal_force_singular = 0;

/* ---- dynamic loading: the plug-ins are linked into the same image ---- */
static char env_dl_token;

void *dlopen(const char *name, int flags)
{
    (void)flags;
    if (env_dlopen_fail || name == NULL) return NULL;
    return &env_dl_token;
}
int dlclose(void *h) { (void)h; return 0; }
char *dlerror(void) { return NULL; }

/* plug-in entry points: weak, so unit-level harnesses that link only part of the library still link natively */
/* builtin rs_vand plug-in */
extern __attribute__((weak)) void init_liberasurecode_rs_vand(int, int);
extern __attribute__((weak)) void deinit_liberasurecode_rs_vand(void);
extern __attribute__((weak)) int *make_systematic_matrix(int, int);
extern __attribute__((weak)) void free_systematic_matrix(int *);
extern __attribute__((weak)) int liberasurecode_rs_vand_encode(int *, char **, char **, int, int, int);
extern __attribute__((weak)) int liberasurecode_rs_vand_decode(int *, char **, char **, int, int, int *, int, int);
extern __attribute__((weak)) int liberasurecode_rs_vand_reconstruct(int *, char **, char **, int, int, int *, int, int);
/* null plug-in */
extern __attribute__((weak)) void *null_code_init(int, int, int);
extern __attribute__((weak)) int null_code_encode(void *, char **, char **, int);
extern __attribute__((weak)) int null_code_decode(void *, char **, char **, int *, int, int);
extern __attribute__((weak)) int null_reconstruct(char **, int, uint64_t, int, char *);
extern __attribute__((weak)) int null_code_fragments_needed(void *, int *, int *);
/* clean-room ISA-L primitives (model/gf8.c) */
extern __attribute__((weak)) void ec_encode_data(int, int, int, unsigned char *, unsigned char **, unsigned char **);
extern __attribute__((weak)) void ec_init_tables(int, int, unsigned char *, unsigned char *);
extern __attribute__((weak)) void gf_gen_rs_matrix(unsigned char *, int, int);
extern __attribute__((weak)) void gf_gen_cauchy1_matrix(unsigned char *, int, int);
extern __attribute__((weak)) int gf_invert_matrix(unsigned char *, unsigned char *, const int);
extern __attribute__((weak)) unsigned char gf_mul(unsigned char, unsigned char);

#define SYM(n) if (strcmp(name, #n) == 0) return (void *)n
void *dlsym(void *h, const char *name)
{
    (void)h;
    env_dlsym_calls++;
    if (env_dlsym_fail_at && env_dlsym_calls == env_dlsym_fail_at) return NULL;
#ifndef ENV_NO_RSVAND
    SYM(init_liberasurecode_rs_vand);
    SYM(deinit_liberasurecode_rs_vand);
    SYM(make_systematic_matrix);
    SYM(free_systematic_matrix);
    SYM(liberasurecode_rs_vand_encode);
    SYM(liberasurecode_rs_vand_decode);
    SYM(liberasurecode_rs_vand_reconstruct);
#endif
#ifndef ENV_NO_NULL
    SYM(null_code_init);
    SYM(null_code_encode);
    SYM(null_code_decode);
    SYM(null_reconstruct);
    SYM(null_code_fragments_needed);
#endif
#ifndef ENV_NO_ISAL
    SYM(ec_encode_data);
    SYM(ec_init_tables);
    SYM(gf_gen_rs_matrix);
    SYM(gf_gen_cauchy1_matrix);
    SYM(gf_invert_matrix);
    SYM(gf_mul);
#endif
    return NULL;
}

/* ---- yield hook (guard LIBERASURECODE_VERIF in /repo): a no-op unless a harness installs a scheduler ---- */
void (*env_yield_hook)(int id) = NULL;
void liberasurecode_verif_yield(int id)
{
    if (env_yield_hook) env_yield_hook(id);
}

/* ---- logging: not a subject of any property ---- */
void openlog(const char *ident, int option, int facility) { (void)ident; (void)option; (void)facility; }
void closelog(void) {}
void syslog(int pri, const char *fmt, ...) { (void)pri; (void)fmt; }

/* ---- getenv: only LIBERASURECODE_WRITE_LEGACY_CRC is read by the library ---- */
char *getenv(const char *name)
{
    (void)name;
    return (char *)env_getenv_value;
}

/* ---- rwlock model: monitor in sequential harnesses, reader/writer semantics for the C18 scheduler ----
 * Also compiled into the native replayer (the repo sources are built with -Dpthread_rwlock_*=env_rwlock_*),
 * so that a lock-discipline failure replays natively. */
#include <pthread.h>
#ifdef VCBMC
#define LOCK_ASSERT(c, msg) __CPROVER_assert((c), "VP:" msg)
#define LOCK_ASSUME(c) __CPROVER_assume(c)
#define env_rwlock_wrlock pthread_rwlock_wrlock
#define env_rwlock_rdlock pthread_rwlock_rdlock
#define env_rwlock_unlock pthread_rwlock_unlock
#else
#define LOCK_ASSERT(c, msg) do { if (!(c)) vh_fail("VP:" msg); } while (0)
#define LOCK_ASSUME(c) do { if (!(c)) vh_assume_false(#c); } while (0)
#endif
int env_lock_writer, env_lock_readers;   /* visible to the C18 scheduler (lock-discipline monitor) */
int env_rwlock_wrlock(pthread_rwlock_t *l)
{
    (void)l;
    /* C18 scheduler: a taker that would have to wait makes the schedule infeasible; sequential harnesses: it is a bug */
    if (env_lock_blocking) LOCK_ASSUME(!env_lock_writer && env_lock_readers == 0);
    LOCK_ASSERT(!env_lock_writer && env_lock_readers == 0, "rwlock taken for writing while already held");
    env_lock_writer = 1;
    env_lock_depth++;
    return 0;
}
int env_rwlock_rdlock(pthread_rwlock_t *l)
{
    (void)l;
    if (env_lock_blocking) LOCK_ASSUME(!env_lock_writer);
    LOCK_ASSERT(!env_lock_writer, "rwlock taken for reading while held by a writer");
    env_lock_readers++;        /* read locks are shared */
    env_lock_depth++;
    return 0;
}
int env_rwlock_unlock(pthread_rwlock_t *l)
{
    (void)l;
    LOCK_ASSERT(env_lock_depth >= 1, "rwlock released while not held");
    if (env_lock_writer) env_lock_writer = 0; else env_lock_readers--;
    env_lock_depth--;
    return 0;
}

/* ---- back ends that only forward to absent third-party libraries ---- */
static struct ec_backend_op_stubs env_inert_ops;
struct ec_backend_common backend_jerasure_rs_vand = { .id = EC_BACKEND_JERASURE_RS_VAND, .name = "jerasure_rs_vand", .soname = NULL, .ops = &env_inert_ops };
struct ec_backend_common backend_jerasure_rs_cauchy = { .id = EC_BACKEND_JERASURE_RS_CAUCHY, .name = "jerasure_rs_cauchy", .soname = NULL, .ops = &env_inert_ops };
struct ec_backend_common backend_shss = { .id = EC_BACKEND_SHSS, .name = "shss", .soname = NULL, .ops = &env_inert_ops };
struct ec_backend_common backend_libphazr = { .id = EC_BACKEND_LIBPHAZR, .name = "libphazr", .soname = NULL, .ops = &env_inert_ops };
