#!/usr/bin/env python3
"""Regenerates /verif/MANIFEST.json from the table below (keeps it schema-valid)."""
import json, os
V = os.path.dirname(os.path.dirname(os.path.abspath(__file__)))
ALL = [f"C{i:02d}" for i in range(1, 21)]
# id -> (technique, level text, level note, design section)
CLAIMS = {
 "C09": ("CBMC bounded symbolic execution of is_invalid_fragment_header / get_fragment_metadata / decode / reconstruct on a fully symbolic 80-byte header with uninterpreted CRCs, compared with a reference predicate",
         "Solver verdict over all 2^640 headers and all CRC values: implementation acceptance == reference predicate, -EBADHEADER otherwise, fragment unmodified, no out-of-bounds access (exact-size object). Bounded only in payload (2 bytes) and instance shape for the decode/reconstruct modes.",
         "CRC functions uninterpreted (D4); decode/reconstruct modes use the null back end (k=1,m=1); env model of section 4", "5/C09"),
}
NA_REASON = "check not built yet in this session (work in progress; see DESIGN.md section 5 for the planned encoding)"
def main():
    checks = []
    for pid in ALL:
        if pid not in CLAIMS:
            continue
        tech, text, note, ref = CLAIMS[pid]
        checks.append({
            "property_id": pid,
            "quick_cmd": f"./check {pid} --tier quick",
            "thorough_cmd": f"./check {pid} --tier thorough",
            "evidence_file": f"/verif/evidence/{pid}.json",
            "replay_cmd_template": f"./check {pid} --replay {{path}}",
            "engine": "cbmc",
            "level_claimed": {"category": "model_checking", "text": text, "design_ref": f"DESIGN.md section {ref}"},
            "level_note": note,
            "technique": tech,
        })
    na_extra = json.load(open(os.path.join(V, "tools", "not_applicable.json"))) if os.path.exists(os.path.join(V, "tools", "not_applicable.json")) else {}
    man = {
        "version": 1,
        "setup_cmd": "python3 tools/setup_check.py",
        "hooks": {"guard": "LIBERASURECODE_VERIF", "enable": "checks compile /repo sources with goto-cc/gcc -DLIBERASURECODE_VERIF",
                  "baseline_off_cmd": "make -C /repo test", "source_commits": [], "add_only": True},
        "engines": [{"name": "cbmc", "path": "/usr/local/bin/cbmc", "serves_properties": sorted(CLAIMS),
                     "kind_free_text": "CBMC 6.11.0 bounded symbolic execution of the real C sources (goto-cc build per run) + native gcc/ASan/UBSan replay of counter-examples"}],
        "checks": checks,
        "notes": "All checks: ./check <id> --tier quick|thorough. Known findings in known_findings.txt. See DESIGN.md.",
        "not_applicable": [{"property_id": p, "reason": na_extra.get(p, NA_REASON)} for p in ALL if p not in CLAIMS],
    }
    json.dump(man, open(os.path.join(V, "MANIFEST.json"), "w"), indent=1)
if __name__ == "__main__":
    main()
