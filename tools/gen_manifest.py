#!/usr/bin/env python3
"""Regenerates /verif/MANIFEST.json from the table below (keeps it schema-valid)."""
import json, os
V = os.path.dirname(os.path.dirname(os.path.abspath(__file__)))
ALL = [f"C{i:02d}" for i in range(1, 21)]
# id -> (technique, level text, level note, design section)
CLAIMS = {
 "C01": ("CBMC bounded symbolic execution of liberasurecode_decode (public API, real RS/ISA-L back ends) and of the back-end decode ops on symbolic payloads, one SAT query per (shape, erasure set, order, checksum type, force flag)",
         "Solver verdict for every payload content within the byte bound: decode of fragments from the independent serializer returns exactly the data and length, for every enumerated tolerated erasure set, reversed/rotated/duplicated/surplus survivor lists, both checksum types, with and without forced checks; alignment of every fragment buffer nondeterministic. Bounded in shape (L2 k+m<=4, L1 up to (10,4)), payload (<=2 blocks) and enumerated lengths.",
         "GF(2^16) arithmetic contract stub (C04 K1/K2), clean-room ISA-L primitives, bitwise zlib CRC model, reference serializer as fragment source; split oracle (D6) for k>2 at L1; flat-XOR only at the back-end interface", "5/C01"),
 "C02": ("CBMC: every non-empty subset of the stripe through liberasurecode_decode / reconstruct_fragment for small shapes with assertion 'negative error or exact bytes' plus CBMC memory-safety checks; flat-XOR decoder on erasure sets between hd and m",
         "Solver verdict over all payloads for each enumerated sub-multiset: success implies exact original bytes, fewer than k fragments implies an error, no out-of-bounds access, no invalid free. Bounded to the enumerated small shapes / sampled XOR band sets.",
         "same trusted base as C01; exact-size heap objects make any over-read a CBMC failure", "5/C02"),
 "C03": ("CBMC: liberasurecode_reconstruct_fragment output compared byte for byte (80-byte header incl. both CRCs + payload) with the independent serializer, for every erasure set x destination of small shapes; destinations outside 0..k+m-1 must fail; back-end reconstruct ops on larger shapes",
         "Solver verdict over all payloads per (shape, erasure set, destination, checksum type). Bounded to k+m<=4 at the API and sampled sets of larger shapes at the back-end interface.",
         "as C01; LIBERASURECODE_WRITE_LEGACY_CRC unset", "5/C03"),
 "C04": ("CBMC: rs_galois.c re-instantiated at w=8 proved equal to carry-less multiplication for all operand pairs (K1); real make_systematic_matrix executed symbolically and compared with the closed form L_j(r)/L_j(k); region kernels with symbolic block size; back-end encode/decode on symbolic words for every k-subset of rows (MDS); native exhaustive comparison of the production-width tables with the contract (K2)",
         "Solver verdicts: table algorithm correct for every operand pair at width 8; generator equals the closed form entry by entry for the enumerated shapes; parity equals the independent GF(2^16) model for every data word; every k-subset of rows decodes for the listed shapes. Production-width table contents: exhaustive native comparison (2^32 pairs), not a solver verdict.",
         "closed form and field arithmetic of model/ref_format.c; width-8 instantiation rewrites exactly two #define lines", "5/C04"),
 "C05": ("CBMC: real init_xor_hd_code / xor_code_encode / xor_hd_decode / xor_reconstruct_one for all 38 tables on symbolic payloads against a frozen independent copy of the equations; minimum distance as a solver query over all non-zero data vectors; xor_bufs_and_store with symbolic length, portable and SSE2 builds",
         "Solver verdict over all payloads for every enumerated erasure set |E|<hd (exhaustive for tables with k+m<=11 in quick, all tables in thorough), both redundant tables equal the frozen equations, weight of every non-zero codeword >= hd (all 2^k-1 data vectors), unsupported shapes refused for the whole (k,m,hd) box.",
         "model/xor_eq.c frozen from the pinned revision; payload 4 bytes for the sweep, 1/16/20/33 on selected tables", "5/C05"),
 "C06": ("CBMC: liberasurecode_fragments_needed with symbolic disjoint request/exclude bitmasks; answer checked for termination, range, distinctness, disjointness and GF(2)-span sufficiency (bit-vector elimination over the frozen equations) / exactly k entries for the MDS codes",
         "One solver query covers every (R,X) pair within tolerance for a table/shape. Beyond tolerance: error or still-correct list.",
         "MDS sufficiency of any k rows rests on C04/C19; list order ascending/descending only", "5/C06"),
 "C07": ("CBMC: public liberasurecode_encode on symbolic data; every byte of every fragment compared with an independently written serializer (explicit byte offsets, own CRC-32, own GF arithmetic, frozen XOR equations)",
         "Solver verdict over all data contents for each enumerated (shape, checksum type, length): all fragment bytes equal the reference, equal fragment lengths, size queries agree, stripe verifies, input untouched.",
         "bitwise zlib CRC model (validated natively against libz in C10); lengths 0..3*k*w only", "5/C07"),
 "C08": ("CBMC: size queries on real instances for a fully symbolic data_len (0..2^20) and symbolic unknown descriptor; link to encode's fragment_len through the C07 harness on enumerated lengths",
         "Solver verdict for every length in the statement's range per enumerated (backend,k).", "k enumerated (all 1..31 for ISA-L, 38 XOR tables, RS k<=16 in thorough)", "5/C08"),
 "C09": ("CBMC bounded symbolic execution of is_invalid_fragment_header / get_fragment_metadata / decode / reconstruct on a fully symbolic 80-byte header with uninterpreted CRCs, compared with a reference predicate",
         "Solver verdict over all 2^640 headers and all CRC values: implementation acceptance == reference predicate, -EBADHEADER otherwise, fragment unmodified, no out-of-bounds access (exact-size object). Bounded only in payload (2 bytes) and instance shape for the decode/reconstruct modes.",
         "CRC functions uninterpreted (D4); decode/reconstruct modes use the null back end (k=1,m=1); env model of section 4", "5/C09"),
 "C10": ("CBMC: verifier on a symbolic fragment with uninterpreted CRCs (mismatch flag == both CRCs differ, checksummed region == (fragment+80,size)); writers with the legacy-CRC environment switch enumerated; liberasurecode_crc32_alt proved equal to a bitwise sign-extending model (one-step lemma over all states + all buffers <= 4 bytes)",
         "Solver verdicts over all headers/payload checksum values, all data for the writers, all 2^40 (state,byte) pairs for the CRC step.", "zlib crc32 uninterpreted or modelled (model validated natively against libz each run)", "5/C10"),
 "C11": ("CBMC: arbitrary accepted opposite-endian fragment vs its field-swapped native twin through is_invalid_fragment_header and get_fragment_metadata, CRCs uninterpreted",
         "Solver verdict over all opposite-endian headers: same verdict, same logical metadata field by field, payload mismatch detected equally.", "twins sealed consistently (D4)", "5/C11"),
 "C12": ("CBMC: is_invalid_fragment and liberasurecode_verify_stripe_metadata on fully symbolic headers/metadata (CRCs uninterpreted) against a reference verdict, per back-end instance",
         "Solver verdict over all headers and checksum values per instance; stripe verification over 1..3 symbolic metadata blocks.", "instances enumerated (null, flat_xor(3,3,3), rs(2,1), isa-l(2,1); more in thorough)", "5/C12"),
 "C13": ("CBMC with --memory-leak-check: every public entry point with nondeterministic valid/NULL pointers, symbolic counts/lengths/descriptors/destinations; instance_create over a symbolic (k,m,hd) box for flat_xor/null and enumerated boundary shapes for the matrix back ends; accepted shapes run a full cycle",
         "Solver verdict over all argument combinations per entry point: invalid => negative code, no memory fault, no leak.", "allocation failure out of scope; matrix back ends: boundary shapes enumerated", "5/C13"),
 "C14": ("CBMC: registry functions under a symbolic history with a fully symbolic counter start, plus a one-step inductive obligation from an arbitrary well-formed registry; API-level histories with nondeterministic operations and enumerated counter presets",
         "Bounded model checking of histories (depth 5/7 registry, 3/5 API) against a set model; the inductive step extends descriptor uniqueness/list well-formedness to histories of any length.", "typed static instances in the registry harness", "5/C14"),
 "C15": ("CBMC: exact-size caller buffers + saved copies in the encode/decode/reconstruct/validation harnesses; encode executed on two instances around a nondeterministic unrelated activity and compared byte for byte",
         "Solver verdict over all data: inputs unchanged and never over-read; encode bytes independent of the intervening activity.", "thread aspect only in the sense of C18", "5/C15"),
 "C16": ("CBMC --memory-leak-check and its double-free/use-after-free/invalid-free checks on success paths with cleanup, documented error paths, invalid arguments and failing back-end operations",
         "Per-call heap discipline proved for every allocation site on every explored path, for histories of <= 4 API calls per query (not 300).", "allocation never fails; per-call inductive reading", "5/C16"),
 "C17": ("CBMC with --memory-leak-check: instance op table replaced through the exported lookup by ops that fail on a symbolic flag; second call with real ops must behave normally",
         "Solver verdict over data and the failure flag per (operation, back end).", "two calls per query", "5/C17"),
 "C18": ("CBMC on a sequentialised two-thread model: guarded yield hooks in /repo (LIBERASURECODE_VERIF_YIELD) call a scheduler that runs thread B's complete operation when thread A reaches an enumerated instrumented point; lock model blocks infeasible schedules; data symbolic",
         "Context-bounded bounded model checking: 6 scenarios x every instrumented pre-emption point (1st/2nd occurrence) with one context switch; memory-safety failures (use of a freed instance, use of incomplete GF tables), descriptor uniqueness and sequential-result equality are decided by the solver for every data value. Two genuine races are listed as known findings; all other schedules in the bound are discharged.",
         "under-approximation of schedules (2 threads, one pre-emption at 13 instrumented points); CBMC's own pthread support rejects this code; hooks are no-ops without the guard", "5/C18 + 10.2"),
 "C19": ("CBMC: isa_l_common.c adapters linked with clean-room GF(2^8) primitives: back-end ops on symbolic payloads with exhaustive erasure sets for small shapes, singular survivor sets and injected inversion failure, public API on the smallest shapes",
         "Solver verdict over all payloads per (adapter, shape, erasure set); split oracle for k>2.", "model/gf8.c stands for any conforming ISA-L", "5/C19"),
 "C20": ("CBMC: liberasurecode_decode(force_metadata_checks=1) on fragments with symbolic payload damage (uninterpreted CRCs, mismatch assumed) or re-sealed header edits, for enumerated survivor sets and damaged subsets",
         "Solver verdict over data, damage byte/position and edited field value: valid fragments within tolerance => original bytes, else error.", "damage detection itself is C10", "5/C20"),
}
NA_REASON = "CBMC 6.11 aborts on pthread code in this repository ('pointer handling for concurrency is unsound'); the planned hook-based sequentialisation (DESIGN.md C18) is not built, so no solver-based check is claimed"
def main():
    checks = []
    for pid in ALL:
        if pid not in CLAIMS:
            continue
        tech, text, note, ref = CLAIMS[pid]
        checks.append({
            "property_id": pid,
            "quick_cmd": f"./check {pid} --tier quick",
            "thorough_cmd": f"./check {pid} --tier thorough",
            "evidence_file": f"/verif/evidence/{pid}.json",
            "replay_cmd_template": f"./check {pid} --replay {{path}}",
            "engine": "cbmc",
            "level_claimed": {"category": "model_checking", "text": text, "design_ref": f"DESIGN.md section {ref}"},
            "level_note": note,
            "technique": tech,
        })
    na_extra = json.load(open(os.path.join(V, "tools", "not_applicable.json"))) if os.path.exists(os.path.join(V, "tools", "not_applicable.json")) else {}
    man = {
        "version": 1,
        "setup_cmd": "python3 tools/setup_check.py",
        "hooks": {"guard": "LIBERASURECODE_VERIF", "enable": "checks compile /repo sources with goto-cc/gcc -DLIBERASURECODE_VERIF",
                  "baseline_off_cmd": "make -C /repo test", "source_commits": ["80b0763"], "add_only": True},
        "engines": [{"name": "cbmc", "path": "/usr/local/bin/cbmc", "serves_properties": sorted(CLAIMS),
                     "kind_free_text": "CBMC 6.11.0 bounded symbolic execution of the real C sources (goto-cc build per run) + native gcc/ASan/UBSan replay of counter-examples"}],
        "checks": checks,
        "notes": "All checks: ./check <id> --tier quick|thorough. Known findings in known_findings.txt. See DESIGN.md.",
        "not_applicable": [{"property_id": p, "reason": na_extra.get(p, NA_REASON)} for p in ALL if p not in CLAIMS],
    }
    json.dump(man, open(os.path.join(V, "MANIFEST.json"), "w"), indent=1)
if __name__ == "__main__":
    main()
