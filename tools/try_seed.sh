#!/bin/sh
# usage: tools/try_seed.sh <seed-name> <tier> <check> [check...]
# Applies /verif/seeded/<seed-name>/patch.diff to a scratch worktree of /repo (never to /repo
# itself), runs the given checks against it (VERIF_REPO), prints their verdict lines, and
# removes the worktree.
seed=$1; tier=$2; shift 2
wt=/tmp/seedwt/$seed
mkdir -p /tmp/seedwt /tmp/vlogs/seeds
git -C /repo worktree remove --force $wt 2>/dev/null
git -C /repo worktree add -q $wt HEAD || exit 3
git -C $wt apply /verif/seeded/$seed/patch.diff || { echo "patch does not apply"; git -C /repo worktree remove --force $wt; exit 3; }
for c in "$@"; do
  VERIF_REPO=$wt ./check $c --tier $tier > /tmp/vlogs/seeds/$seed.$c.log 2>&1
  rc=$?
  echo "seed=$seed check=$c rc=$rc $(grep -c '^VIOLATION' /tmp/vlogs/seeds/$seed.$c.log) violation line(s)"
  grep -A1 '^VIOLATION' /tmp/vlogs/seeds/$seed.$c.log | grep 'failed:' | sort | uniq -c | sort -rn | head -4
done
git -C /repo worktree remove --force $wt
