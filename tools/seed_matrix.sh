#!/bin/sh
# runs every seeded change against the checks expected to catch it (quick tier); output in /tmp/vlogs/seed_matrix.txt
out=/tmp/vlogs/seed_matrix.txt
: > $out
run() { seed=$1; shift; tools/try_seed.sh $seed quick "$@" >> $out 2>&1; }
run C09-a C09
run C12-a C12
run C10-a C10
run C07-a C07 C08
run C08-a C08
run C05-a C05
run C03-a C05 C03
run C04-a C04
run C14-a C14
run C13-a C13
run C06-a C06
run C01-a C01
run C02-a C02
run C16-a C16
run C17-a C17
run C20-a C20
