#!/bin/sh
# usage: tools/run_list.sh <tier> C01 C02 ... ; like run_seq.sh (kept under a different name)
tier=$1; shift
mkdir -p /tmp/vlogs
for c in "$@"; do
  s=$(date +%s)
  ./check $c --tier $tier > /tmp/vlogs/$c.$tier.log 2>&1
  echo "$c rc=$? $(( $(date +%s)-s ))s" >> /tmp/vlogs/summary.$tier.txt
done
