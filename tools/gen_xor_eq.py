#!/usr/bin/env python3
"""One-off generator of model/xor_eq.c: a frozen, independent copy of the 38 flat-XOR equation
sets (parity j = XOR of the data fragments listed), taken from the *data-side* tables of the
pinned revision (include/xor_codes/xor_hd_code_defs.h at b49615d).  The checks compare both of
the repository's redundant tables and the encoder's output against this copy, so a later edit of
either table in /repo is detected (C05/C07: parity bytes must never change)."""
import re, sys
src = open(sys.argv[1]).read()
tabs = {}
for m in re.finditer(r"g_(\d+)_(\d+)_(\d+)_hd_code_data_bms\[\]\s*=\s*\{([^}]*)\}", src):
    k, mm, hd = int(m.group(1)), int(m.group(2)), int(m.group(3))
    vals = [int(x) for x in m.group(4).replace("\n", " ").split(",") if x.strip()]
    assert len(vals) == k, (k, mm, hd, len(vals))
    tabs[(k, mm, hd)] = vals
out = ["/* GENERATED ONCE by tools/gen_xor_eq.py from the pinned revision; do not regenerate from a",
       " * modified tree.  eq[j] = bitmask of the data fragments XORed into parity j. */",
       "#include \"xor_eq.h\"", "const struct xor_eq xor_eqs[] = {"]
for (k, mm, hd), vals in sorted(tabs.items(), key=lambda t: (t[0][2], t[0][1], t[0][0])):
    eq = [0] * mm
    for i, bm in enumerate(vals):
        for j in range(mm):
            if bm >> j & 1:
                eq[j] |= 1 << i
    out.append("  { %d, %d, %d, { %s } }," % (k, mm, hd, ", ".join("0x%x" % e for e in eq)))
out.append("};")
out.append("const int xor_eqs_n = %d;" % len(tabs))
out.append("""const struct xor_eq *xor_eq_find(int k, int m, int hd)
{
    for (int i = 0; i < xor_eqs_n; i++)
        if (xor_eqs[i].k == k && xor_eqs[i].m == m && xor_eqs[i].hd == hd) return &xor_eqs[i];
    return 0;
}""")
open(sys.argv[2], "w").write("\n".join(out) + "\n")
print(len(tabs), "tables")
