#!/usr/bin/env python3
"""MANIFEST.setup_cmd: nothing is built ahead of time (every check rebuilds from /repo's working
tree); this only verifies that the tools the checks need are present."""
import shutil, subprocess, sys
bad = [t for t in ("cbmc", "goto-cc", "gcc") if not shutil.which(t)]
if bad:
    print("missing tools:", bad); sys.exit(1)
print(subprocess.run(["cbmc", "--version"], capture_output=True, text=True).stdout.strip())
