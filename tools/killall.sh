#!/bin/sh
# stop every running check and solver (patterns anchored so the calling shell never matches)
pkill -f 'python3 ./check' 2>/dev/null
pkill -f 'python3 /verif/check' 2>/dev/null
sleep 0.5
pkill -9 -x cbmc 2>/dev/null
exit 0
