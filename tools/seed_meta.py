#!/usr/bin/env python3
"""Writes seeded/<name>/meta.json from the seed trial logs (/tmp/vlogs/seeds/<seed>.<check>.log)."""
import json, os, re, glob, sys
V = os.path.dirname(os.path.dirname(os.path.abspath(__file__)))
NEEDS = {
 "C01-a": ("C01", "a parity fragment supplied in a buffer that is not 16-byte aligned AND at least one data fragment missing (copy/paste slip in the parity realignment branch of prepare_fragments_for_decode)"),
 "C02-a": ("C02", "a fragment list with >= k entries but fewer than k distinct fragments (duplicates): get_fragment_partition no longer rejects it and the RS adapter ignores the builtin's -1"),
 "C03-a": ("C03", "flat_xor_hd hd=4, three erasures = two data + one parity, data destination whose usable parity is the erased one (xor_reconstruct_one falls back to decode with the parity erasure dropped)"),
 "C04-a": ("C04", "fragment payload size 4 or 6 mod 8: region_xor processes 8 bytes at a time but keeps the '% 4' tail, two 16-bit words are never XORed"),
 "C05-a": ("C05", "table (12,6,3): data-side entry for fragment 3 altered (24 -> 42); only reconstruct of fragments 8/10/16 with fragment 3 also missing is wrong, decode and encode unaffected"),
 "C06-a": ("C06", "flat_xor_hd hd=4, request+exclude = two data + one parity where the first data fragment's private parity is the missing one: fragments_needed_two_data plans the second element twice (well-formed but insufficient list)"),
 "C07-a": ("C07", "input length an exact multiple of k*word_size: get_aligned_data_size rounds up one extra block"),
 "C08-a": ("C08", "length an exact non-zero multiple of k*word_size: public aligned-size query pads a full extra block, and get_fragment_size now uses it while encode keeps the internal helper (two sites, each plausible alone)"),
 "C09-a": ("C09", "header with libec_version == 1.2.0 exactly and a wrong metadata checksum ('<' became '<=')"),
 "C10-a": ("C10", "historical CRC over a payload containing a byte >= 0x80 (mask applied before the xor with a signed char: negative table index)"),
 "C12-a": ("C12", "re-sealed header with idx >= 2^31 (comparison made signed through an int temporary)"),
 "C13-a": ("C13", "decode with fragment_len < 80 and fragments that carry valid headers (length check moved after the header loop and the fast path)"),
 "C14-a": ("C14", "two live rs_vand instances, destroy one, use the survivor (GF tables freed when the count drops from 2 to 1)"),
 "C16-a": ("C16", "decode/reconstruct with a misaligned parity fragment and a missing data fragment: realloc bitmap bit i instead of k+i (leak + free of caller memory)"),
 "C17-a": ("C17", "backend decode returns an error with a data fragment missing: 'out:' label moved below the loops that free the replacement buffers (leak)"),
 "C01-b": ("C01", "short objects: 0 < len < (k-1)*blocksize (fragments_to_string copies fragments 0..k-2 in full and gives the last memcpy a negative length) - any erasure set, incl. none"),
 "C05-b": ("C05", "xor_bufs_and_store tail XORed 8 bytes at a time without a sub-word remainder: payload sizes with blocksize % 8 == 4"),
 "C06-b": ("C06", "rs_vand min_fragments scans i <= k+m: with exactly m+1 fragments requested+excluded it returns success with the non-existent index k+m"),
 "C11-b": ("C11", "opposite-endian header whose version is not byte-swapped before the '< 1.2.0' test: pre-1.2.0 fragments with a revision, or N.0.0 versions, get a different verdict than their native twin"),
 "C15-b": ("C15", "opposite-endian CRC32 fragment: payload CRC length taken from the raw (unswapped) header size field -> reads far beyond the fragment"),
 "C16-b": ("C16", "flat-XOR hd=4, three missing data fragments none of which is singly connected: decode_three_data no longer frees its scratch parity buffer on success"),
 "C18-b": ("C18", "two threads in instance_create at once: descriptor allocated before the registry lock is taken -> duplicate descriptors"),
 "C19-b": ("C19", "ISA-L adapters, m >= 3, at least one data and two parity fragments missing, reconstruct of the 2nd or later missing parity (stale d_idx_unavail in get_inverse_rows)"),
 "C03-c": ("C03", "rs_vand shapes with m > k and more than k (at most m) erasures: builtin reconstruct bails out on 'num_missing > k', the adapter ignores its -1, a zero payload under a fresh valid header is returned"),
 "C07-c": ("C07", "metadata CRC flavour test rewritten in positive form without swapping the branches: the historical CRC is written whenever the legacy switch is NOT set (readers accept both, only a byte-level comparison sees it)"),
 "C09-c": ("C09", "reconstruct: 'break' instead of 'goto out' after a bad header: a fragment with host magic but failing validation is consumed"),
 "C10-c": ("C10", "reconstruct passes (set_chksum, ct) in swapped order to add_fragment_metadata: with ct=CRC32 the rebuilt fragment gets type NONE and no payload CRC"),
 "C12-c": ("C12", "get_libec_version accepts opposite-endian magic: a consistently byte-swapped fragment validates as good"),
 "C13-c": ("C13", "init_xor_hd_code hd=4 shape check merged: (5,6,4) accepted with NULL tables, first use crashes"),
 "C14-c": ("C14", "alloc_desc skips the in-use scan unless the counter wrapped in THIS call: create, create, destroy(first), counter at INT_MAX, create, create -> live descriptor reissued"),
 "C17-c": ("C17", "reconstruct: segment pointer arrays freed early on the success path only: a failing back-end reconstruct leaks them"),
 "C02-d": ("C02", "flat-XOR reconstruct of a PARITY destination with hd or more erasures, one of them a data fragment of that parity's equation: the GE_HD refusal was restricted to data destinations, the void fallback drops decode's -1"),
 "C04-d": ("C04", "rs_galois_mult returns 0 for operands >= GROUP_SIZE: the field element 0xFFFF (data word 0xFFFF in parity rows >= 2; matrix generation for k >= 7, k+m >= 16 where 15^5 = 0xFFFF occurs)"),
 "C08-d": ("C08", "get_fragment_size on an unknown/destroyed descriptor returns +204 instead of -204"),
 "C16-d": ("C16", "rs_galois_init_tables no longer counts the second and later users: two live rs_vand instances, destroy one -> shared tables freed under the survivor"),
 "C19-d": ("C19", "isa_l_decode early 'only parity missing' exit with the data mask short by one: the last data fragment (k-1) missing alone is not rebuilt"),
 "C20-d": ("C20", "forced checks skip a fragment whose index already appeared earlier in the INPUT list: an invalid copy followed by a valid copy of the same index loses the valid one"),
 "C01-e": ("C01", "flat_xor_hd hd=4, three data fragments erased none of which is singly connected: decode_three_data frees its P^Q scratch buffer before copying it (small payloads: the allocator overwrites the first bytes)"),
 "C05-e": ("C05", "INTEL_SSE2 build only: trailing 64-bit word XORed in one go, then fast_blocksize advanced by the whole residual: blocksize % 16 in 9..15 loses its last bytes"),
 "C09-e": ("C09", "stored metadata checksum accepted in either byte order regardless of the order the magic indicates"),
 "C11-e": ("C11", "open-coded bswap_64 with one wrong shift: opposite-endian orig_data_size >= 2^32 read wrongly"),
 "C13-e": ("C13", "encode_cleanup guards the parity block with the data pointer: (desc, data, NULL) dereferences NULL, (desc, NULL, parity) frees nothing"),
 "C14-e": ("C14", "flat_xor_hd_init hands every instance the same static descriptor: two flat-XOR instances with different shapes, or one destroyed while the other is used"),
 "C15-e": ("C15", "metadata-CRC flavour decision cached in a function-local static: the first header written in the process fixes it for all later calls, whatever the environment says then"),
 "C18-e": ("C18", "unregister takes the registry lock in READ mode: two threads destroying different instances run SLIST_REMOVE concurrently"),
 "C20-a": ("C20", "force_metadata_checks with erasures AND corruption together: 'valid < k' replaced by 'invalid > m'"),
}
def main():
    for seed, (pid, needs) in NEEDS.items():
        d = os.path.join(V, "seeded", seed)
        if not os.path.isdir(d):
            continue
        runs = []
        for lg in sorted(glob.glob(f"/tmp/vlogs/seeds/{seed}.*.log")):
            chk = os.path.basename(lg).split(".")[1]
            txt = open(lg).read()
            viol = re.findall(r"^VIOLATION property=(\S+)", txt, re.M)
            obs = sorted(set(re.findall(r"^  ob=(\S+) failed: (.*)$", txt, re.M)))
            last = [l for l in txt.splitlines() if l.startswith("[" + chk + "]")]
            runs.append({"check": chk, "command": f"tools/try_seed.sh {seed} quick {chk}", "violation_lines": len(viol), "caught": bool(viol),
                         "failed_obligations": [f"{o}: {m[:140]}" for o, m in obs[:8]], "summary": last[-1] if last else ""})
        meta_path = os.path.join(d, "meta.json")
        old = json.load(open(meta_path)) if os.path.exists(meta_path) else {}
        prev = {r["check"]: r for r in old.get("runs", [])}
        for r in runs:
            prev[r["check"]] = r
        meta = {"seed": seed, "breaks_property": pid, "origin": "independent sub-agent given only the property text and a scratch worktree",
                "needs_to_manifest": needs,
                "confirmed": "patch applies to /repo HEAD; the sub-agent's notes.md records `make test` exit 0 with the change and the demonstration failing only with it; re-checked here by running the listed checks against a scratch worktree with the patch applied",
                "runs": list(prev.values()), "caught_by": sorted(c for c, r in prev.items() if r["caught"])}
        json.dump(meta, open(meta_path, "w"), indent=1)
        print(seed, meta["caught_by"])
if __name__ == "__main__":
    main()
