/* Bitwise model of zlib's crc32() (reflected polynomial 0xEDB88320, init/final xor ~0).
 * Used in place of libz inside CBMC data-path harnesses; validated natively against the
 * installed libz (check C10, stub validation). */
#include <stdint.h>
#include <stddef.h>

unsigned long
#ifdef ZCRC_NAME
ZCRC_NAME
#else
crc32
#endif
(unsigned long crc, const unsigned char *buf, unsigned int len)
{
    uint32_t c = (uint32_t)crc ^ 0xffffffffu;
    if (buf == NULL) return 0;
    for (unsigned int i = 0; i < len; i++) {
        c ^= buf[i];
        for (int b = 0; b < 8; b++)
            c = (c >> 1) ^ (0xEDB88320u & (0u - (c & 1u)));
    }
    return (unsigned long)(c ^ 0xffffffffu);
}
