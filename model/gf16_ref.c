/* GF(2^16)/0x1100b arithmetic contract (DESIGN D1): linked in place of the table look-ups
 * rs_galois_mult/div/inverse (rs_galois.c is compiled with those three names renamed to
 * real_*).  Branch-free so symbolic execution never forks on data bits.
 * Obligations that justify the substitution: C04 K1 (algorithm at w=8, solver), K2 (all 2^32
 * pairs, native), K3 (init loop memory safety). */
#include "vh.h"

/* straight-line (no loop): cheaper for symbolic execution when the operands are concrete */
#define GF16_STEP r ^= a & (0u - (b & 1u)); b >>= 1; a <<= 1; a ^= 0x1100bu & (0u - ((a >> 16) & 1u));
static inline unsigned gf16_mul_u(unsigned a, unsigned b)
{
    unsigned r = 0;
    GF16_STEP GF16_STEP GF16_STEP GF16_STEP GF16_STEP GF16_STEP GF16_STEP GF16_STEP
    GF16_STEP GF16_STEP GF16_STEP GF16_STEP GF16_STEP GF16_STEP GF16_STEP GF16_STEP
    return r;
}

#ifdef VCBMC
/* the real functions index 65536-entry tables: arguments outside the field are an
 * out-of-bounds read there, so they are a property violation here */
#define GF_DOM(x) __CPROVER_assert((x) >= 0 && (x) < 65536, "VP:rs_galois argument outside GF(2^16) (table index out of bounds in the real code)")
extern int *log_table, *ilog_table;
#define GF_TABLES() __CPROVER_assert(log_table != 0 && ilog_table != 0, "VP:rs_galois arithmetic used while the tables are not (completely) initialised")
#else
#define GF_DOM(x)
#define GF_TABLES()
#endif

int rs_galois_mult(int x, int y)
{
    GF_DOM(x); GF_DOM(y); GF_TABLES();
    return (int)gf16_mul_u((unsigned)x, (unsigned)y);
}

static unsigned gf16_inv_u(unsigned y)
{
    /* y^(2^16-2) */
    unsigned r = 1, s = y;
    for (int i = 1; i < 16; i++) {
        s = gf16_mul_u(s, s);
        r = gf16_mul_u(r, s);
    }
    return r;
}

int rs_galois_div(int x, int y)
{
    GF_DOM(x); GF_DOM(y); GF_TABLES();
    if (x == 0) return 0;
    if (y == 0) return -1;
    return (int)gf16_mul_u((unsigned)x, gf16_inv_u((unsigned)y));
}

int rs_galois_inverse(int x)
{
    return rs_galois_div(1, x);
}
