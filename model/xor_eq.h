#ifndef XOR_EQ_H
#define XOR_EQ_H
struct xor_eq { int k, m, hd; unsigned eq[6]; };
extern const struct xor_eq xor_eqs[];
extern const int xor_eqs_n;
const struct xor_eq *xor_eq_find(int k, int m, int hd);
#endif
