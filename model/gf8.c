/* Clean-room implementation of the ISA-L erasure-code primitives the adapters dlsym(),
 * written from the ISA-L API documentation (erasure_code.h): GF(2^8) with polynomial 0x11d.
 *   gf_mul, gf_inv, gf_gen_rs_matrix, gf_gen_cauchy1_matrix, gf_invert_matrix,
 *   ec_init_tables (32 bytes per coefficient: low- and high-nibble product tables),
 *   ec_encode_data (dest[l][i] = XOR_j coeff(l,j) * src[j][i]).
 * Stands for "any library that implements ISA-L's documented primitives" (C19). */
#include <string.h>
#include "vh.h"

#define GF8_STEP r ^= x & (0u - (y & 1u)); y >>= 1; x <<= 1; x ^= 0x11du & (0u - ((x >> 8) & 1u));
unsigned char gf_mul(unsigned char a, unsigned char b)
{
    unsigned x = a, y = b, r = 0;
    GF8_STEP GF8_STEP GF8_STEP GF8_STEP GF8_STEP GF8_STEP GF8_STEP GF8_STEP
    return (unsigned char)r;
}

unsigned char gf_inv(unsigned char a)
{
    /* a^(254); gf_inv(0) == 0 as in ISA-L */
    unsigned char r = 1, s = a;
    for (int i = 1; i < 8; i++) {
        s = gf_mul(s, s);
        r = gf_mul(r, s);
    }
    return r;
}

void gf_gen_rs_matrix(unsigned char *a, int m, int k)
{
    int i, j;
    unsigned char p, gen = 1;
    memset(a, 0, (size_t)k * m);
    for (i = 0; i < k; i++) a[k * i + i] = 1;
    for (i = k; i < m; i++) {
        p = 1;
        for (j = 0; j < k; j++) {
            a[k * i + j] = p;
            p = gf_mul(p, gen);
        }
        gen = gf_mul(gen, 2);
    }
}

void gf_gen_cauchy1_matrix(unsigned char *a, int m, int k)
{
    int i, j;
    unsigned char *p;
    memset(a, 0, (size_t)k * m);
    for (i = 0; i < k; i++) a[k * i + i] = 1;
    p = &a[k * k];
    for (i = k; i < m; i++)
        for (j = 0; j < k; j++)
            *p++ = gf_inv((unsigned char)(i ^ j));
}

int gf_invert_matrix(unsigned char *in_mat, unsigned char *out_mat, const int n)
{
    int i, j, k;
    unsigned char temp;
    if (env_isal_force_singular) return -1;
    for (i = 0; i < n * n; i++) out_mat[i] = 0;
    for (i = 0; i < n; i++) out_mat[i * n + i] = 1;
    for (i = 0; i < n; i++) {
        if (in_mat[i * n + i] == 0) {
            for (j = i + 1; j < n; j++)
                if (in_mat[j * n + i]) break;
            if (j == n) return -1;
            for (k = 0; k < n; k++) {
                temp = in_mat[i * n + k]; in_mat[i * n + k] = in_mat[j * n + k]; in_mat[j * n + k] = temp;
                temp = out_mat[i * n + k]; out_mat[i * n + k] = out_mat[j * n + k]; out_mat[j * n + k] = temp;
            }
        }
        temp = gf_inv(in_mat[i * n + i]);
        for (j = 0; j < n; j++) {
            in_mat[i * n + j] = gf_mul(in_mat[i * n + j], temp);
            out_mat[i * n + j] = gf_mul(out_mat[i * n + j], temp);
        }
        for (j = 0; j < n; j++) {
            if (j == i) continue;
            temp = in_mat[j * n + i];
            for (k = 0; k < n; k++) {
                out_mat[j * n + k] ^= gf_mul(temp, out_mat[i * n + k]);
                in_mat[j * n + k] ^= gf_mul(temp, in_mat[i * n + k]);
            }
        }
    }
    return 0;
}

void ec_init_tables(int k, int rows, unsigned char *a, unsigned char *g_tbls)
{
    for (int i = 0; i < rows; i++)
        for (int j = 0; j < k; j++) {
            unsigned char c = *a++;
            for (int t = 0; t < 16; t++) {
                g_tbls[t] = gf_mul(c, (unsigned char)t);
                g_tbls[16 + t] = gf_mul(c, (unsigned char)(t << 4));
            }
            g_tbls += 32;
        }
}

void ec_encode_data(int len, int k, int rows, unsigned char *g_tbls, unsigned char **data, unsigned char **coding)
{
    for (int l = 0; l < rows; l++)
        for (int i = 0; i < len; i++) {
            unsigned char s = 0;
            for (int j = 0; j < k; j++)
                /* entry 1 of the low-nibble table is the coefficient itself */
                s ^= gf_mul(data[j][i], g_tbls[j * 32 + l * k * 32 + 1]);
            coding[l][i] = s;
        }
}
