/* Independent serializer written from the wire-format statement (C07) and the code
 * definitions (C04: RS-Vandermonde closed form; C05: flat-XOR equations; ISA-L documented
 * generator matrices).  Own field arithmetic, own CRCs: shares no code with /repo. */
#include "ref_format.h"
#include "xor_eq.h"

#define M16_STEP r ^= a & (0u - (b & 1u)); b >>= 1; a <<= 1; a ^= 0x1100bu & (0u - ((a >> 16) & 1u));
uint32_t m16_mul(uint32_t a, uint32_t b)
{
    uint32_t r = 0;
    M16_STEP M16_STEP M16_STEP M16_STEP M16_STEP M16_STEP M16_STEP M16_STEP
    M16_STEP M16_STEP M16_STEP M16_STEP M16_STEP M16_STEP M16_STEP M16_STEP
    return r;
}
uint32_t m16_inv(uint32_t a)
{
    uint32_t r = 1, s = a;
    for (int i = 1; i < 16; i++) { s = m16_mul(s, s); r = m16_mul(r, s); }
    return r;
}
#define M8_STEP r ^= a & (0u - (b & 1u)); b >>= 1; a <<= 1; a ^= 0x11du & (0u - ((a >> 8) & 1u));
uint32_t m8_mul(uint32_t a, uint32_t b)
{
    uint32_t r = 0;
    M8_STEP M8_STEP M8_STEP M8_STEP M8_STEP M8_STEP M8_STEP M8_STEP
    return r;
}
uint32_t m8_inv(uint32_t a)
{
    uint32_t r = 1, s = a;
    for (int i = 1; i < 8; i++) { s = m8_mul(s, s); r = m8_mul(r, s); }
    return r;
}

/* CRC-32 (reflected 0xEDB88320, init/final ~0), bit at a time.  legacy: the historical variant
 * whose running value was a signed int, i.e. the 8-bit shift sign-extends. */
static uint32_t crc_run(const uint8_t *p, size_t n, int legacy)
{
    uint32_t c = 0xffffffffu;
    for (size_t i = 0; i < n; i++) {
        uint32_t top = legacy ? (0xff000000u & (0u - (c >> 31))) : 0u;
        c ^= p[i];
        for (int b = 0; b < 8; b++)
            c = (c >> 1) ^ (0xEDB88320u & (0u - (c & 1u)));
        c ^= top;
    }
    return c ^ 0xffffffffu;
}
uint32_t ref_crc32(const uint8_t *p, size_t n) { return crc_run(p, n, 0); }
uint32_t ref_crc32_legacy(const uint8_t *p, size_t n) { return crc_run(p, n, 1); }

uint32_t ref_payload_size(const struct ref_cfg *c, uint64_t len)
{
    uint64_t unit = (uint64_t)c->k * c->wbytes;
    uint64_t aligned = ((len + unit - 1) / unit) * unit;
    return (uint32_t)(aligned / c->k);
}

/* L_j(x) = prod_{i<k, i!=j} (x xor i) over GF(2^16)/0x1100b */
static uint32_t lagr16(int k, int j, uint32_t x)
{
    uint32_t p = 1;
    for (int i = 0; i < k; i++)
        if (i != j) p = m16_mul(p, x ^ (uint32_t)i);
    return p;
}

uint32_t ref_coeff(const struct ref_cfg *c, int r, int j)
{
    switch (c->be) {
    case 6:   /* liberasurecode_rs_vand: L_j(r)/L_j(k) */
        return m16_mul(lagr16(c->k, j, (uint32_t)r), m16_inv(lagr16(c->k, j, (uint32_t)c->k)));
    case 4: { /* isa_l_rs_vand: gf_gen_rs_matrix: row r = powers of 2^(r-k) */
        uint32_t gen = 1, p = 1;
        for (int i = c->k; i < r; i++) gen = m8_mul(gen, 2);
        for (int i = 0; i < j; i++) p = m8_mul(p, gen);
        return p;
    }
    case 7:   /* isa_l_rs_cauchy: gf_gen_cauchy1_matrix: 1/(r xor j) */
        return m8_inv((uint32_t)(r ^ j));
    case 3: { /* flat_xor_hd */
        const struct xor_eq *e = xor_eq_find(c->k, c->m, c->hd);
        return e ? ((e->eq[r - c->k] >> j) & 1u) : 0;
    }
    default:  /* null: parity is left zero */
        return 0;
    }
}

static uint8_t data_byte(const struct ref_cfg *c, const uint8_t *data, uint64_t len, int frag, uint32_t off, uint32_t size)
{
    uint64_t pos = (uint64_t)frag * size + off;
    return pos < len ? data[pos] : 0;
}

void ref_payload(const struct ref_cfg *c, const uint8_t *data, uint64_t len, int idx, uint8_t *out, uint32_t size)
{
    if (idx < c->k) {
        for (uint32_t o = 0; o < size; o++) out[o] = data_byte(c, data, len, idx, o, size);
        return;
    }
    for (uint32_t o = 0; o < size; o++) out[o] = 0;
    for (int j = 0; j < c->k; j++) {
        uint32_t co = ref_coeff(c, idx, j);
        if (c->wbytes == 2 && c->be == 6) {
            for (uint32_t o = 0; o + 1 < size; o += 2) {
                uint32_t w = data_byte(c, data, len, j, o, size) | ((uint32_t)data_byte(c, data, len, j, o + 1, size) << 8);
                uint32_t p = m16_mul(w, co);
                out[o] ^= (uint8_t)p; out[o + 1] ^= (uint8_t)(p >> 8);
            }
        } else if (c->be == 4 || c->be == 7) {
            for (uint32_t o = 0; o < size; o++) out[o] ^= (uint8_t)m8_mul(data_byte(c, data, len, j, o, size), co);
        } else if (c->be == 3) {
            if (co) for (uint32_t o = 0; o < size; o++) out[o] ^= data_byte(c, data, len, j, o, size);
        }
    }
}

static void le32(uint8_t *p, uint32_t v) { p[0] = (uint8_t)v; p[1] = (uint8_t)(v >> 8); p[2] = (uint8_t)(v >> 16); p[3] = (uint8_t)(v >> 24); }

void ref_header(const struct ref_cfg *c, uint64_t len, int idx, const uint8_t *payload, uint32_t size, uint8_t *h)
{
    for (int i = 0; i < REF_HDR; i++) h[i] = 0;
    le32(h + 0, (uint32_t)idx);
    le32(h + 4, size);
    le32(h + 8, 0);
    le32(h + 12, (uint32_t)len); le32(h + 16, (uint32_t)(len >> 32));
    h[20] = (uint8_t)c->ct;
    if (c->ct == 2) le32(h + 21, c->uf ? c->uf_payload : c->legacy_crc ? ref_crc32_legacy(payload, size) : ref_crc32(payload, size));
    h[53] = 0;
    h[54] = (uint8_t)c->be;
    le32(h + 55, c->be_ver);
    le32(h + 59, 0x0b0c5eccu);
    le32(h + 63, 0x010604u);
    le32(h + 67, c->uf ? c->uf_meta : c->legacy_crc ? ref_crc32_legacy(h, 59) : ref_crc32(h, 59));
}

void ref_fragment(const struct ref_cfg *c, const uint8_t *data, uint64_t len, int idx, uint8_t *out, uint32_t size)
{
    ref_payload(c, data, len, idx, out + REF_HDR, size);
    ref_header(c, len, idx, out + REF_HDR, size, out);
}
