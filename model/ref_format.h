#ifndef REF_FORMAT_H
#define REF_FORMAT_H
#include <stdint.h>
#include <stddef.h>
struct ref_cfg {
    int be;            /* backend id on the wire */
    uint32_t be_ver;   /* backend version on the wire */
    int k, m, hd;
    int wbytes;        /* word size in bytes: rs_vand 2, flat_xor 4, isa-l 1, null 4 */
    int ct;            /* 1 none, 2 crc32 */
    int legacy_crc;    /* LIBERASURECODE_WRITE_LEGACY_CRC set: historical sign-extending CRC */
    int uf;            /* uninterpreted-CRC harnesses: take the two checksum values from below */
    uint32_t uf_payload, uf_meta;
};
#define REF_HDR 80
/* payload size of every fragment for an input of len bytes */
uint32_t ref_payload_size(const struct ref_cfg *c, uint64_t len);
/* coefficient of data column j in parity row r (k <= r < k+m) */
uint32_t ref_coeff(const struct ref_cfg *c, int r, int j);
/* payload of fragment idx (data: slice, parity: reference encoder); out has size bytes */
void ref_payload(const struct ref_cfg *c, const uint8_t *data, uint64_t len, int idx, uint8_t *out, uint32_t size);
/* full fragment: 80-byte header + payload */
void ref_fragment(const struct ref_cfg *c, const uint8_t *data, uint64_t len, int idx, uint8_t *out, uint32_t size);
/* header only, given the payload bytes */
void ref_header(const struct ref_cfg *c, uint64_t len, int idx, const uint8_t *payload, uint32_t size, uint8_t *out);
uint32_t ref_crc32(const uint8_t *p, size_t n);
uint32_t ref_crc32_legacy(const uint8_t *p, size_t n);
uint32_t m16_mul(uint32_t a, uint32_t b);
uint32_t m16_inv(uint32_t a);
uint32_t m8_mul(uint32_t a, uint32_t b);
uint32_t m8_inv(uint32_t a);
#endif
