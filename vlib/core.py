"""Driver for the CBMC-based checks (see DESIGN.md section 3).

Every run: fresh work directory, goto-cc build of the repo units from /repo's working tree,
one CBMC query per obligation (job pool), JSON result parsing, counter-example -> replay file
-> native gcc+ASan/UBSan replay of the same harness against the real sources, evidence file.
"""
import atexit, fnmatch, json, os, re, resource, shutil, signal, subprocess, sys, tempfile, threading, time
from concurrent.futures import ThreadPoolExecutor, as_completed
from dataclasses import dataclass, field

VERIF = os.path.dirname(os.path.dirname(os.path.abspath(__file__)))
VIN_SLOTS = 200   # = VIN_MAX in harness/vh.h
REPO = os.environ.get("VERIF_REPO", "/repo")
GUARD = "LIBERASURECODE_VERIF"

INCS = [f"{REPO}/include/erasurecode", f"{REPO}/include/xor_codes", f"{REPO}/include/rs_vand",
        f"{REPO}/include/isa_l", f"{REPO}/include", f"{VERIF}/env/cfg", f"{VERIF}/harness",
        f"{VERIF}/env", f"{VERIF}/model"]

# name -> (path, extra cflags).  "R:" = relative to /repo/src, "V:" = relative to /verif
UNITS = {
    "erasurecode": ("R:erasurecode.c", []),
    "helpers": ("R:erasurecode_helpers.c", []),
    "preproc": ("R:erasurecode_preprocessing.c", []),
    "postproc": ("R:erasurecode_postprocessing.c", []),
    "crc32alt": ("R:utils/chksum/crc32.c", []),
    "be_null": ("R:backends/null/null.c", []),
    "be_xor": ("R:backends/xor/flat_xor_hd.c", []),
    "be_isal_common": ("R:backends/isa-l/isa_l_common.c", []),
    "be_isal_vand": ("R:backends/isa-l/isa_l_rs_vand.c", []),
    "be_isal_cauchy": ("R:backends/isa-l/isa_l_rs_cauchy.c", []),
    "be_rsvand": ("R:backends/rs_vand/liberasurecode_rs_vand.c", []),
    # GF arithmetic contract (D1): real table code kept under real_* names
    "galois_stubbed": ("G:w4:builtin/rs_vand/rs_galois.c",
                       ["-Drs_galois_mult=real_rs_galois_mult", "-Drs_galois_div=real_rs_galois_div",
                        "-Drs_galois_inverse=real_rs_galois_inverse"]),
    "galois_real": ("R:builtin/rs_vand/rs_galois.c", []),
    # same source text instantiated at w=8 (K1): only the two #define lines are rewritten
    "galois_w8": ("G:w8:builtin/rs_vand/rs_galois.c", []),
    "rsvand": ("R:builtin/rs_vand/liberasurecode_rs_vand.c", []),
    "xor_code": ("R:builtin/xor_codes/xor_code.c", []),
    "xor_code_sse2": ("R:builtin/xor_codes/xor_code.c", ["-DINTEL_SSE2", "-msse2"]),
    "xor_hd_code": ("R:builtin/xor_codes/xor_hd_code.c", []),
    "null_code": ("R:builtin/null_code/null_code.c", []),
    "env": ("V:env/env.c", []),
    "env_crc_uf": ("V:env/env_crc_uf.c", []),
    "zcrc32": ("V:model/zcrc32.c", []),
    "gf16_ref": ("V:model/gf16_ref.c", []),
    "gf8": ("V:model/gf8.c", []),
    "ref_format": ("V:model/ref_format.c", []),
    "xor_eq": ("V:model/xor_eq.c", []),
}
# natively the real GF tables and the real libz are used
NATIVE_SUBST = {"galois_stubbed": "galois_real", "gf16_ref": None, "zcrc32": None}
NATIVE_RENAMES = ["-Ddlopen=env_dlopen", "-Ddlclose=env_dlclose", "-Ddlerror=env_dlerror", "-Ddlsym=env_dlsym",
                  "-Dopenlog=env_openlog", "-Dcloselog=env_closelog", "-Dsyslog=env_syslog", "-Dgetenv=env_getenv",
                  "-Dpthread_rwlock_wrlock=env_rwlock_wrlock", "-Dpthread_rwlock_rdlock=env_rwlock_rdlock", "-Dpthread_rwlock_unlock=env_rwlock_unlock"]

FRONT = ["erasurecode", "helpers", "preproc", "postproc", "crc32alt", "be_null", "be_xor", "be_isal_common",
         "be_isal_vand", "be_isal_cauchy", "be_rsvand", "galois_stubbed", "gf16_ref", "rsvand", "xor_code",
         "xor_hd_code", "null_code", "gf8", "env"]

BASE_FLAGS = ["--unwinding-assertions", "--pointer-check", "--bounds-check", "--div-by-zero-check",
              "--signed-overflow-check", "--undefined-shift-check",
              "--drop-unused-functions", "--max-field-sensitivity-array-size", "200", "--object-bits", "10",
              "--no-malloc-may-fail", "--json-ui", "--verbosity", "8"]
LIBC_UNWIND = {"vin_bytes.0": 130, "vin_bytes.1": 130, "strlen.0": 70, "strcpy.0": 70, "strcmp.0": 40, "strdup.0": 70,
               "liberasurecode_init.0": 12, "liberasurecode_exit.0": 12,
               "rs_galois_init_tables.0": 16, "gf16_mul_u.0": 17, "gf16_inv_u.0": 17,
               "gf_mul.0": 9, "gf_inv.0": 9, "ec_init_tables.0": 33, "ec_init_tables.1": 33, "ec_init_tables.2": 33, "m16_mul.0": 17, "m16_inv.0": 17, "m8_mul.0": 9, "m8_inv.0": 9,
               "lagr16.0": 34, "xor_eq_find.0": 40, "tab_entry.0": 9}


@dataclass
class Ob:
    id: str                       # unique within the property
    harness: str                  # file under /verif/harness
    defs: dict = field(default_factory=dict)
    units: list = field(default_factory=lambda: list(FRONT))
    unwind: int = 8
    unwindset: dict = field(default_factory=dict)
    flags: list = field(default_factory=list)
    noflags: list = field(default_factory=list)
    timeout: int = 300
    mem_gb: int = 8
    solver: list = field(default_factory=lambda: ["--sat-solver", "cadical"])
    sample: dict = field(default_factory=dict)      # human-readable description for evidence
    targets: list = field(default_factory=list)     # real functions exercised
    required: bool = True
    need_witness: bool = True


@dataclass
class Res:
    ob: Ob
    verdict: str = "inconclusive"    # discharged | violated | inconclusive | error
    failures: list = field(default_factory=list)   # [(prop, desc, loc)]
    witness: bool = False
    wall: float = 0.0
    rss_kb: int = 0
    solver_s: float = 0.0
    ssa_steps: int = 0
    sat_vars: int = 0
    sat_clauses: int = 0
    nprops: int = 0
    note: str = ""
    binary: str = ""
    artefacts: list = field(default_factory=list)
    ub_by_rule: list = field(default_factory=list)


class Ctx:
    def __init__(self, prop, tier, seed=0, keep=False):
        self.prop, self.tier, self.seed = prop, tier, seed
        base = os.environ.get("VERIF_WORK_BASE", "/var/tmp")
        self.work = tempfile.mkdtemp(prefix=f"verif-{prop}-", dir=base)
        if not keep and not os.environ.get("VERIF_KEEP"):
            _workdirs.append(self.work)
        if not keep and not os.environ.get("VERIF_KEEP"):
            atexit.register(lambda: shutil.rmtree(self.work, ignore_errors=True))
        self.lock = threading.Lock()
        self.unit_cache = {}
        self.native_cache = {}
        self.t0 = time.time()
        self.jobs = int(os.environ.get("VERIF_JOBS", "14"))
        self.mem_budget = int(os.environ.get("VERIF_MEM_GB", "52"))
        self.mem_used = 0
        self.memcv = threading.Condition()
        self.log = open(os.path.join(self.work, "log.txt"), "w")

    def say(self, *a):
        print(*a, flush=True)


_children = set()
_children_lock = threading.Lock()
_workdirs = []


def _kill_children(*a):
    with _children_lock:
        for pid in list(_children):
            try:
                os.killpg(pid, signal.SIGKILL)
            except Exception:
                pass
    if a:
        for d in list(_workdirs):
            shutil.rmtree(d, ignore_errors=True)
        os._exit(143)


signal.signal(signal.SIGTERM, _kill_children)
signal.signal(signal.SIGINT, _kill_children)
atexit.register(_kill_children)


def run(cmd, timeout=None, mem_gb=None, cwd=None, env=None, capture=True):
    def pre():
        os.setsid()
        if mem_gb:
            lim = int(mem_gb * (1 << 30))
            resource.setrlimit(resource.RLIMIT_AS, (lim, lim))
    t0 = time.time()
    p = subprocess.Popen(cmd, stdout=subprocess.PIPE if capture else None, stderr=subprocess.PIPE if capture else None,
                         cwd=cwd, env=env, preexec_fn=pre)
    with _children_lock:
        _children.add(p.pid)
    try:
        out, err = p.communicate(timeout=timeout)
        to = False
    except subprocess.TimeoutExpired:
        try:
            os.killpg(p.pid, signal.SIGKILL)
        except ProcessLookupError:
            pass
        out, err = p.communicate()
        to = True
    with _children_lock:
        _children.discard(p.pid)
    return p.returncode, (out or b"").decode("utf-8", "replace"), (err or b"").decode("utf-8", "replace"), to, time.time() - t0


GEN_WIDTH = {"w4": ("0x13", "(1 << 4)"), "w8": ("0x11d", "(1 << 8)")}
_gen_lock = threading.Lock()
_gen_dir = None


def gen_galois(width, rel):
    """Re-instantiate rs_galois.c at a smaller field width by rewriting exactly the two lines
    '#define PRIM_POLY ...' and '#define FIELD_SIZE ...' of /repo's current source.  Fails closed
    when the lines are not found exactly once.  w4 is used wherever the arithmetic is contract-
    replaced (only the init/deinit life cycle is executed; the fill loop runs 15 times instead of
    65535); w8 is the K1 instantiation whose arithmetic is compared with carry-less multiplication."""
    global _gen_dir
    with _gen_lock:
        if _gen_dir is None:
            _gen_dir = tempfile.mkdtemp(prefix="verif-gen-", dir=os.environ.get("VERIF_WORK_BASE", "/var/tmp"))
            atexit.register(lambda: shutil.rmtree(_gen_dir, ignore_errors=True))
        out = os.path.join(_gen_dir, f"rs_galois_{width}.c")
        if os.path.exists(out):
            return out
        src = open(os.path.join(REPO, "src", rel)).read()
        poly, fs = GEN_WIDTH[width]
        src2, n1 = re.subn(r"^#define PRIM_POLY 0x1100b[ \t]*$", f"#define PRIM_POLY {poly}", src, flags=re.M)
        src2, n2 = re.subn(r"^#define FIELD_SIZE \(1 << 16\)[ \t]*$", f"#define FIELD_SIZE {fs}", src2, flags=re.M)
        if n1 != 1 or n2 != 1:
            raise RuntimeError("rs_galois.c: PRIM_POLY/FIELD_SIZE definitions not found exactly once; cannot re-instantiate")
        with open(out, "w") as f:
            f.write(src2)
        return out


def unit_src(name):
    path, fl = UNITS[name]
    if path.startswith("R:"):
        return os.path.join(REPO, "src", path[2:]), fl
    if path.startswith("G:"):
        _, width, rel = path.split(":", 2)
        return gen_galois(width, rel), fl
    return os.path.join(VERIF, path[2:]), fl


def build_unit(ctx, name, native=False, extra=()):
    key = (name, native, tuple(extra))
    with ctx.lock:
        ev = ctx.unit_cache.get(key)
        if ev is None:
            ev = ctx.unit_cache[key] = threading.Event()
            owner = True
        else:
            owner = False
    tag = ("n_" if native else "g_") + name + ("_" + str(abs(hash(tuple(extra))) % 100000) if extra else "")
    out = os.path.join(ctx.work, tag + ".o")
    if not owner:
        ev.wait()
        return out
    src, fl = unit_src(name)
    incs = [x for i in INCS for x in ("-I", i)]
    if native:
        cmd = ["gcc", "-std=gnu99", "-g", "-O1", "-fno-omit-frame-pointer", "-fsanitize=address,undefined",
               "-fno-sanitize-recover=undefined", "-fno-sanitize=shift-base", "-D_GNU_SOURCE=1", f"-D{GUARD}", "-w", "-c", src, "-o", out] + incs + fl + NATIVE_RENAMES + list(extra)
    else:
        cmd = ["goto-cc", "-std=gnu99", "-D_GNU_SOURCE=1", f"-D{GUARD}", "-DVCBMC", "-w", "-c", src, "-o", out] + incs + fl + list(extra)
    rc, o, e, to, _ = run(cmd, timeout=300)
    if rc != 0:
        ev.set()
        raise RuntimeError(f"build of unit {name} failed:\n{' '.join(cmd)}\n{o}\n{e}")
    ev.set()
    return out


def defs_list(defs):
    r = []
    for k, v in defs.items():
        r.append(f"-D{k}" if v is None or v is True else f"-D{k}={v}")
    return r


def build_binary(ctx, ob, native=False):
    objs = []
    for u in ob.units:
        if native:
            if u in NATIVE_SUBST:
                u = NATIVE_SUBST[u]
                if u is None:
                    continue
        objs.append(build_unit(ctx, u, native))
    objs = list(dict.fromkeys(objs))
    hsrc = os.path.join(VERIF, "harness", ob.harness)
    incs = [x for i in INCS for x in ("-I", i)]
    safe = re.sub(r"[^A-Za-z0-9_.-]", "_", ob.id)
    out = os.path.join(ctx.work, ("n_" if native else "b_") + safe)
    if native:
        cmd = ["gcc", "-std=gnu99", "-g", "-O1", "-fno-omit-frame-pointer", "-fsanitize=address,undefined",
               "-fno-sanitize-recover=undefined", "-fno-sanitize=shift-base", "-D_GNU_SOURCE=1", f"-D{GUARD}", "-w", hsrc, "-o", out] + incs + defs_list(ob.defs) + NATIVE_RENAMES + objs + ["-lz", "-lpthread", "-lm"]
    else:
        cmd = ["goto-cc", "-std=gnu99", "-D_GNU_SOURCE=1", f"-D{GUARD}", "-DVCBMC", "-w", hsrc, "-o", out] + incs + defs_list(ob.defs) + objs
    rc, o, e, to, _ = run(cmd, timeout=300)
    if rc != 0:
        raise RuntimeError(f"build of {ob.id} failed:\n{' '.join(cmd)}\n{o}\n{e}")
    return out


def cbmc_cmd(ob, binary, extra=()):
    flags = [f for f in BASE_FLAGS if f not in ob.noflags]
    us = dict(LIBC_UNWIND)
    us.update(ob.unwindset)
    cmd = ["cbmc", binary] + flags + ["--unwind", str(ob.unwind), "--unwindset", ",".join(f"{k}:{v}" for k, v in us.items())]
    cmd += ob.flags + ob.solver + list(extra)
    return cmd


def parse_cbmc_json(text):
    """returns (results list | None, messages)"""
    try:
        doc = json.loads(text)
    except Exception:
        # truncated output: try to salvage
        return None, text[-2000:]
    results = None
    msgs = []
    for el in doc:
        if isinstance(el, dict):
            if "result" in el:
                results = el["result"]
            elif "messageText" in el and el.get("messageType") in ("ERROR", "WARNING"):
                msgs.append(el["messageText"])
            elif "cProverStatus" in el:
                msgs.append("status=" + el["cProverStatus"])
    return results, "\n".join(msgs)


def loc_str(sl):
    if not sl:
        return ""
    return f"{os.path.basename(sl.get('file', '?'))}:{sl.get('line', '?')}:{sl.get('function', '?')}"


def acquire_mem(ctx, gb):
    with ctx.memcv:
        while ctx.mem_used + gb > ctx.mem_budget and ctx.mem_used > 0:
            ctx.memcv.wait()
        ctx.mem_used += gb


def release_mem(ctx, gb):
    with ctx.memcv:
        ctx.mem_used -= gb
        ctx.memcv.notify_all()


def run_ob(ctx, ob):
    r = Res(ob)
    t0 = time.time()
    try:
        r.binary = build_binary(ctx, ob)
    except Exception as ex:
        r.verdict, r.note = "error", str(ex)[-3000:]
        return r
    acquire_mem(ctx, ob.mem_gb)
    try:
        cmd = ["/usr/bin/time", "-f", "VTIME %e %M", "-o", r.binary + ".time"] + cbmc_cmd(ob, r.binary)
        rc, out, err, to, wall = run(cmd, timeout=ob.timeout, mem_gb=ob.mem_gb * 2 + 4)
    finally:
        release_mem(ctx, ob.mem_gb)
    r.wall = time.time() - t0
    try:
        tl = open(r.binary + ".time").read().split()
        r.rss_kb = int(tl[-1])
    except Exception:
        pass
    if to and "--external-sat-solver" not in ob.solver and not os.environ.get("VERIF_NO_RETRY"):
        # safety net: one retry with another back end (kissat as external solver) before giving up
        ob2 = Ob(**{**ob.__dict__, "solver": ["--external-sat-solver", "kissat"]})
        acquire_mem(ctx, ob.mem_gb)
        try:
            rc, out, err, to, wall = run(cbmc_cmd(ob2, r.binary), timeout=ob.timeout, mem_gb=ob.mem_gb * 2 + 4, cwd=ctx.work)
        finally:
            release_mem(ctx, ob.mem_gb)
        for fn in os.listdir("/tmp"):
            if fn.startswith("external-sat"):
                try: os.unlink(os.path.join("/tmp", fn))
                except OSError: pass
        r.wall = time.time() - t0
        r.note = "retried with kissat after a CaDiCaL timeout"
    if to:
        r.verdict, r.note = "inconclusive", f"timeout after {ob.timeout}s (both back ends)"
        return r
    results, msgs = parse_cbmc_json(out)
    r.solver_s = sum(float(x) for x in re.findall(r"Runtime decision procedure: ([0-9.]+)s", out))
    m = re.search(r"size of program expression: (\d+) steps", out)
    if m:
        r.ssa_steps = int(m.group(1))
    vc = re.findall(r"(\d+) variables, (\d+) clauses", out)
    if vc:
        r.sat_vars, r.sat_clauses = max(int(a) for a, _ in vc), max(int(b) for _, b in vc)
    if results is not None:
        r.nprops = len(results)
    if results is None and "irep not terminated" in out + err and not getattr(ob, "_reran", False):
        # the goto binary was unreadable (seen once in ~8000 queries): rebuild and run again
        ob._reran = True
        try:
            os.unlink(r.binary)
        except OSError:
            pass
        return run_ob(ctx, ob)
    if results is None:
        r.verdict = "inconclusive" if ("std::bad_alloc" in (out + err) or "Out of memory" in (out + err) or rc in (-9, 137, -6, 134)) else "error"
        errs = " | ".join(re.findall(r'"messageText": "([^"]*)",\s*"messageType": "ERROR"', out))
        r.note = f"rc={rc} no result section; {errs[-600:]} {err[-300:]}"
        return r
    fails = []
    unknown = []
    for pr in results:
        st = pr.get("status")
        desc = pr.get("description", "")
        if desc == "WITNESS":
            if st == "FAILURE":
                r.witness = True
            continue
        if st == "FAILURE":
            loc = loc_str(pr.get("sourceLocation"))
            if any(d in desc and loc.endswith(":" + fn) for d, fn in ARTEFACT_RULES):
                r.artefacts.append(f"{desc} @ {loc}")
                continue
            if any(d in desc for d in UB_RULES):
                r.ub_by_rule.append(f"{desc} @ {loc}")
                continue
            fails.append((pr.get("property", "?"), desc, loc))
        elif st not in ("SUCCESS",):
            unknown.append((pr.get("property", "?"), f"[{st}] " + desc, loc_str(pr.get("sourceLocation"))))
    r.failures = fails
    unw = [f for f in fails if "unwinding assertion" in f[1]]
    if unw:
        r.verdict, r.note = "error", "unwinding bound too small: " + "; ".join(f"{f[0]}" for f in unw[:5])
    elif fails:
        r.verdict = "violated"
        if unknown:
            r.note = f"{len(unknown)} further checks left undecided by CBMC after the failures"
    elif unknown:
        r.verdict, r.note = "inconclusive", f"{len(unknown)} checks undecided: " + "; ".join(u[1] for u in unknown[:3])
    elif ob.need_witness and not r.witness:
        r.verdict, r.note = "error", "vacuous: witness assertion not reached / not violated"
    else:
        r.verdict = "discharged"
    return r


def get_trace_inputs(ctx, ob, binary, prop):
    """re-run with --trace for one property; returns list of vin values or None"""
    cmd = cbmc_cmd(ob, binary, ["--trace", "--property", prop, "--stop-on-fail"])
    rc, out, err, to, wall = run(cmd, timeout=ob.timeout * 2, mem_gb=ob.mem_gb * 2 + 4)
    try:
        doc = json.loads(out)
    except Exception:
        return None
    vals = {}
    def walk_trace(tr):
        for st in tr:
            if st.get("stepType") != "assignment":
                continue
            lhs = st.get("lhs", "")
            m = re.match(r"vin_log\[(\d+)[a-zA-Z]*\]$", lhs)
            if m:
                v = st.get("value", {})
                b = v.get("binary")
                if b is not None:
                    vals[int(m.group(1))] = int(b, 2)
                else:
                    d = re.match(r"-?\d+", str(v.get("data", "0")))
                    vals[int(m.group(1))] = int(d.group(0)) if d else 0
    for el in doc:
        if isinstance(el, dict) and "result" in el:
            for pr in el["result"]:
                if pr.get("trace"):
                    walk_trace(pr["trace"])
        elif isinstance(el, dict) and el.get("trace"):
            walk_trace(el["trace"])
    if not vals:
        return []
    n = max(vals) + 1
    return [vals.get(i, 0) for i in range(n)]


def native_replay(ctx, ob, vins, tag):
    """returns (status, output, replay_path); status in reproduced|not-reproduced|assume-false|build-error"""
    rdir = os.path.join(VERIF, "replay", "found")
    os.makedirs(rdir, exist_ok=True)
    safe = re.sub(r"[^A-Za-z0-9_.-]", "_", f"{ctx.prop}-{ob.id}-{tag}")[:150]
    rpath = os.path.join(rdir, safe + ".json")
    with open(rpath, "w") as f:
        json.dump({"property": ctx.prop, "obligation": ob.id, "harness": ob.harness, "defs": ob.defs, "units": ob.units,
                   "failed": tag, "vin": vins}, f)
    st, out = replay_values(ctx, ob, vins)
    return st, out, rpath


_native_locks = {}
_native_guard = threading.Lock()
_vin_counter = [0]


def replay_values(ctx, ob, vins):
    with _native_guard:
        lk = _native_locks.setdefault(ob.id, threading.Lock())
        _vin_counter[0] += 1
        seq = _vin_counter[0]
    with lk:
        nb = ctx.native_cache.get(ob.id)
        if nb is None:
            try:
                nb = build_binary(ctx, ob, native=True)
            except Exception as ex:
                return "build-error", str(ex)[-2000:]
            ctx.native_cache[ob.id] = nb
    vf = f"{nb}.{seq}.vin"
    with open(vf, "w") as f:
        f.write("\n".join(str(v) for v in vins) + "\n")
    env = dict(os.environ)
    env["VERIF_REPLAY"] = vf
    env["ASAN_OPTIONS"] = "detect_leaks=1:abort_on_error=0:exitcode=66"
    env["UBSAN_OPTIONS"] = "print_stacktrace=1:halt_on_error=1:exitcode=67"
    rc, out, err, to, wall = run([nb], timeout=120, env=env)
    txt = out + err
    if "REPLAY-ASSUME-FALSE" in txt or "REPLAY-INPUT-EXHAUSTED" in txt:
        return "assume-false", txt[-1500:]
    if rc == 0 and not to:
        return "not-reproduced", txt[-1500:]
    return "reproduced", txt[-2500:]


# ---------------------------------------------------------------- known findings
def load_known(prop):
    p = os.path.join(VERIF, "known_findings.txt")
    out = []
    if not os.path.exists(p):
        return out
    for line in open(p):
        line = line.strip()
        if not line.startswith("finding:"):
            continue
        m = re.match(r"finding:\s+property=(\S+)\s+ob=(\S+)\s+desc=\"([^\"]*)\"\s+(.*)$", line)
        if m and m.group(1) == prop:
            out.append({"ob": m.group(2), "desc": m.group(3), "text": m.group(4)})
    return out


def match_known(known, obid, desc, loc):
    for k in known:
        if fnmatch.fnmatch(obid, k["ob"]) and (k["desc"] in desc or k["desc"] in f"{desc} @ {loc}"):
            return k
    return None


# CBMC artefacts triaged by rule (DESIGN 10.4): (description substring, function).  CBMC 6.11 reports
# "memset destination region writeable" for ANY memset over a malloc(sizeof(T*) * n) object whose element count
# n is symbolic (5-line reproducer in DESIGN 10.4); isa_l_common.c:get_inverse_rows is such a site.
ARTEFACT_RULES = (("memset destination region writeable", "get_inverse_rows"),)
# standard-level UB triaged by rule (DESIGN section 3): `1 << 31` on a signed int when k+m == 32 - every supported
# compiler produces the sign-bit mask; reported as UB-ONLY, never replayed, never a violation
UB_RULES = ("arithmetic overflow on signed shl in 1 << ",)

UB_ONLY_PAT = ("pointer arithmetic", "pointer relation", "arithmetic overflow on signed shl", "shift operand is negative",
               "shift distance", "pointer_arithmetic")


# ---------------------------------------------------------------- main loop
def execute(ctx, obs, native_steps=(), assumptions=(), trusted=(), extra_cov=None):
    known = load_known(ctx.prop)
    results = []
    ctx.say(f"[{ctx.prop}] tier={ctx.tier} obligations={len(obs)} work={ctx.work} repo={REPO}")
    # pre-build shared units serially-parallel
    allunits = sorted({u for ob in obs for u in ob.units})
    with ThreadPoolExecutor(max_workers=ctx.jobs) as ex:
        list(ex.map(lambda u: build_unit(ctx, u), allunits))
    with ThreadPoolExecutor(max_workers=ctx.jobs) as ex:
        # longest-looking jobs first (memory reservation, then time cap) so that the tail of the run is short
        futs = {ex.submit(run_ob, ctx, ob): ob for ob in sorted(obs, key=lambda o: (-o.mem_gb, -o.timeout))}
        for fu in as_completed(futs):
            r = fu.result()
            results.append(r)
            ctx.say(f"  {r.ob.id}: {r.verdict} wall={r.wall:.1f}s rss={r.rss_kb//1024}MB" + (f" fails={len(r.failures)}" if r.failures else "") + (f" note={r.note[-400:]}" if r.note else ""))
            ctx.log.write(json.dumps({"ob": r.ob.id, "verdict": r.verdict, "failures": r.failures, "note": r.note}) + "\n")
            ctx.log.flush()
    results.sort(key=lambda r: r.ob.id)
    violations, known_hit, ub_only, model_err, inconcl = [], {}, [], [], []
    replayed = 0
    tasks = []
    hard_errors = []
    for r in results:
        if r.verdict == "error" and r.binary and "no result section" in r.note and "unwinding" not in r.note:
            # CBMC itself aborted (e.g. SIGSEGV on a memcpy with a negative length): fall back to running the same
            # harness natively on two fixed input vectors; a sanitizer/assertion failure there is a reproduced violation
            hit = None
            for fill in (0, 0xA5A5A5A5A5A5A5A5):
                st, out = replay_values(ctx, r.ob, [fill] * VIN_SLOTS)
                if st == "reproduced":
                    rdir = os.path.join(VERIF, "replay", "found"); os.makedirs(rdir, exist_ok=True)
                    rpath = os.path.join(rdir, re.sub(r"[^A-Za-z0-9_.-]", "_", f"{ctx.prop}-{r.ob.id}-cbmc-abort")[:150] + ".json")
                    json.dump({"property": ctx.prop, "obligation": r.ob.id, "harness": r.ob.harness, "defs": r.ob.defs, "units": r.ob.units,
                               "failed": "cbmc aborted; native run", "vin": [fill] * VIN_SLOTS}, open(rpath, "w"))
                    hit = (r, "CBMC aborted on this query (" + r.note[:60] + "); the same harness run natively on a fixed input fails", "", rpath, out)
                    break
            if hit:
                violations.append(hit)
                continue
        if r.verdict == "error":
            hard_errors.append(r)
            continue
        if r.verdict == "inconclusive":
            if r.ob.required:
                inconcl.append(r)
            continue
        if r.verdict != "violated":
            continue
        # one trace per distinct (description, location); property assertions first; capped
        seen_desc = {}
        for prop, desc, loc in sorted(r.failures, key=lambda f: (not f[1].startswith("VP:"), f[1])):
            keyd = desc + "@" + loc
            if keyd not in seen_desc:
                seen_desc[keyd] = prop
        items = list(seen_desc.items())
        cap = int(os.environ.get("VERIF_TRIAGE_CAP", "6"))
        if len(items) > cap:
            ctx.say(f"  note: ob={r.ob.id} has {len(items)} distinct failing checks; replaying the first {cap} (property assertions first)")
        for keyd, prop in items[:cap]:
            desc, loc = keyd.rsplit("@", 1)
            tasks.append((r, desc, loc, prop))

    gcap = int(os.environ.get("VERIF_TRIAGE_TOTAL", "48"))
    if len(tasks) > gcap:
        ctx.say(f"  note: {len(tasks)} failing checks across {len({t[0].ob.id for t in tasks})} queries; replaying the first {gcap} (property assertions first, one per query first)")
        first, rest, seen = [], [], set()
        for t in tasks:
            (first if t[0].ob.id not in seen else rest).append(t)
            seen.add(t[0].ob.id)
        tasks = (first + rest)[:gcap]

    def triage(t):
        r, desc, loc, prop = t
        vins = get_trace_inputs(ctx, r.ob, r.binary, prop)
        if vins is None:
            return (t, None, "no trace", "")
        st, out, rpath = native_replay(ctx, r.ob, vins, prop)
        return (t, st, out, rpath)

    with ThreadPoolExecutor(max_workers=max(2, ctx.jobs // 2)) as ex:
        triaged = list(ex.map(triage, tasks))
    for (r, desc, loc, prop), st, out, rpath in triaged:
        k = match_known(known, r.ob.id, desc, loc)
        if st is None:
            if k:
                known_hit.setdefault((k["ob"], k["desc"]), (k, r.ob.id, rpath))
            else:
                model_err.append((r, desc, loc, "no trace"))
            continue
        replayed += 1
        is_vp = desc.startswith("VP:")
        if st == "reproduced":
            if k:
                known_hit.setdefault((k["ob"], k["desc"]), (k, r.ob.id, rpath))
            else:
                violations.append((r, desc, loc, rpath, out))
        elif st == "not-reproduced" and not is_vp:
            # CBMC safety check that the sanitizers do not confirm: reported, never a violation
            ub_only.append((r, desc, loc))
        else:
            if k:
                # a listed finding whose replay does not fault natively is still the listed finding
                known_hit.setdefault((k["ob"], k["desc"]), (k, r.ob.id, rpath))
            else:
                model_err.append((r, desc, loc, st + ": " + out[-400:]))
    for (k, obid, rpath) in known_hit.values():
        ctx.say(f"KNOWN-FINDING: property={ctx.prop} {k['text']} (ob={obid} replay={rpath})")
    for r, desc, loc in ub_only:
        ctx.say(f"UB-ONLY: property={ctx.prop} ob={r.ob.id} {desc} @ {loc} (not confirmed by ASan/UBSan replay)")
    for r, desc, loc, why in model_err:
        ctx.say(f"MODEL-ERROR: property={ctx.prop} ob={r.ob.id} {desc} @ {loc}: {why}")
    for r in inconcl:
        ctx.say(f"INCONCLUSIVE: property={ctx.prop} ob={r.ob.id} {r.verdict} {r.note[:500]}")
    for r in hard_errors:
        ctx.say(f"MACHINERY-ERROR: property={ctx.prop} ob={r.ob.id} {r.note[:500]}")
    native_viol = []
    native_info = []
    for step in native_steps:
        ok, info, rpath = step(ctx)
        native_info.append(info)
        if not ok:
            native_viol.append((info, rpath))
    for r, desc, loc, rpath, out in violations:
        ctx.say(f"VIOLATION property={ctx.prop} replay={rpath}")
        ctx.say(f"  ob={r.ob.id} failed: {desc} @ {loc}")
        ctx.say("  native replay: " + out.strip().replace("\n", "\n    ")[-1200:])
    for info, rpath in native_viol:
        ctx.say(f"VIOLATION property={ctx.prop} replay={rpath}")
        ctx.say(f"  native step: {info}")
    nviol = len(violations) + len(native_viol)
    ub_obs = {r.ob.id for r, _, _ in ub_only}
    hard_obs = {r.ob.id for r, *_ in violations} | {r.ob.id for r, *_ in model_err} | {obid for (_, obid, _) in known_hit.values()}
    # a query whose only failed checks are UB-ONLY (not confirmed natively) still discharges its property assertions
    discharged = [r for r in results if r.verdict == "discharged" or (r.verdict == "violated" and r.ob.id in ub_obs and r.ob.id not in hard_obs and r.witness)]
    with_known = [r for r in results if r.verdict == "violated" and r not in discharged]
    cov = {
        "evaluations": len(results),
        "distinct_nontrivial": len({r.ob.id for r in results if r.witness}),
        "rule": "one evaluation = one CBMC query (harness instance with its -D vector) deciding its assertions for every value of the symbolic inputs within the bounds; non-trivial = the reachability witness assertion at the end of the harness was reported violated (the harness is not vacuous)",
        "obligations": len(results),
        "discharged": len(discharged),
        "violated_queries": len(with_known),
        "known_findings_matched": [k["text"] for (k, _, _) in known_hit.values()],
        "inconclusive": [r.ob.id + ": " + r.note[:200] for r in results if r.verdict in ("inconclusive", "error")],
        "ub_only": sorted({f"{desc} @ {loc}" for _, desc, loc in ub_only})[:40],
        "cbmc_artefacts_by_rule": sorted({a for r in results for a in r.artefacts}),
        "ub_only_by_rule": sorted({a for r in results for a in r.ub_by_rule})[:40],
        "samples": [dict(ob=r.ob.id, harness=r.ob.harness, defs=r.ob.defs, unwind=r.ob.unwind, **r.ob.sample) for r in results[:6]],
        "functions_encoded": sorted({t for r in results for t in r.ob.targets}),
        "units": sorted({unit_src(u)[0].replace(REPO + "/", "repo:").replace(VERIF + "/", "verif:") for r in results for u in r.ob.units}),
        "bounds": {r.ob.id: dict(unwind=r.ob.unwind, **{k: v for k, v in r.ob.sample.items() if k.startswith("bound")}) for r in results[:400]},
        "solver": "cbmc 6.11.0, SAT back end CaDiCaL (--sat-solver cadical) unless an obligation overrides it",
        "solver_time_s": round(sum(r.solver_s for r in results), 2),
        "query_wall_s": round(sum(r.wall for r in results), 2),
        "max_rss_kb": max([r.rss_kb for r in results] + [0]),
        "traces_validated_against_impl": replayed,
        "states": max(1, sum(r.ssa_steps for r in results)),
        "transitions": max(1, sum(r.nprops for r in results)),
        "states_transitions_meaning": "states = total size of the symbolic executions (CBMC 'size of program expression' in SSA steps, summed over the queries); transitions = total number of assertions (property assertions + CBMC safety checks + unwinding assertions) decided by the solver; both measured on this run",
        "sat_variables_max": max([r.sat_vars for r in results] + [0]),
        "sat_clauses_max": max([r.sat_clauses for r in results] + [0]),
        "native_steps": native_info,
        "checker_cmd": f"./check {ctx.prop} --tier {ctx.tier}",
        "trusted_base": list(trusted),
        "exhaustive": False,
    }
    if extra_cov:
        cov.update(extra_cov)
    ev = {"property_id": ctx.prop, "tier": ctx.tier, "seed": ctx.seed, "level": "model_checking", "coverage": cov,
          "assumptions": list(assumptions), "wall_s": round(time.time() - ctx.t0, 2), "violations": nviol}
    # runs against a scratch tree (VERIF_REPO: seeded changes) must not overwrite the evidence of /repo itself
    evdir = os.path.join(VERIF, "evidence") if os.path.realpath(REPO) == "/repo" and not os.environ.get("VERIF_EVIDENCE_DIR") else os.environ.get("VERIF_EVIDENCE_DIR", "/tmp/vlogs/evidence_scratch")
    os.makedirs(evdir, exist_ok=True)
    with open(os.path.join(evdir, f"{ctx.prop}.json"), "w") as f:
        json.dump(ev, f, indent=1)
    ctx.say(f"[{ctx.prop}] obligations={len(results)} discharged={len(discharged)} known={len(known_hit)} ub_only={len(ub_only)} "
            f"inconclusive={len(inconcl)} machinery_errors={len(hard_errors)} model_errors={len(model_err)} violations={nviol} wall={time.time()-ctx.t0:.1f}s")
    if nviol:
        return 1
    if model_err or hard_errors:
        return 2
    if inconcl:
        # a query that ran out of time/memory was not explored: it is reported (INCONCLUSIVE lines, evidence
        # "inconclusive") and not counted as discharged; the check only fails as a whole (exit 2) when too
        # little of the plan was decided for the run to mean anything
        decided = len(discharged) + len(with_known)
        if decided * 10 < len(results) * 8:
            return 2
    return 0
